//! C03 catalogue preserved exactly: the collection codecs of ragc-common/src/collection.rs
//! (prefix varint, predictive zigzag, sample names, delta-coded contig names, 5-stream descriptor
//! tables, 50-sample batches with the `samples_loaded` cursor) against Model/{CollVarint,Zigzag,
//! Names,Details}.lean, byte for byte through the `verif_*` wrappers (hook H1), plus the property
//! itself evaluated on the real code: what is registered is what is listed after a
//! serialise → deserialise trip on a fresh collection (and, slower, through a real archive file).
use crate::model::{hex, nat_list};
use crate::props::guarded;
use crate::report::Report;
use crate::rng::Rng;
use crate::Ctx;
use ragc_common::{zigzag_decode, zigzag_encode, Archive, CollectionV3, CollectionVarInt};
use serde_json::{json, Value};

const S_NAMES: u64 = 0x0301;
const S_NAMES_BAD: u64 = 0x0302;
const S_DET: u64 = 0x0303;
const S_DET_BAD: u64 = 0x0304;
const S_CAT: u64 = 0x0305;
const S_ARCH: u64 = 0x0306;
const S_PRIM: u64 = 0x0307;
const S_BUILD: u64 = 0x0308;

type Seg = (u32, u32, bool, u32);

// ------------------------------------------------------------------ protocol tokens

fn name_list_tok(l: &[Vec<u8>]) -> String {
    if l.is_empty() {
        return ".".into();
    }
    l.iter().map(|n| hex(n)).collect::<Vec<_>>().join(",")
}
fn name_table_tok(t: &[Vec<Vec<u8>>]) -> String {
    if t.is_empty() {
        return "!".into();
    }
    t.iter().map(|s| name_list_tok(s)).collect::<Vec<_>>().join(";")
}
fn seg_tok(s: &Seg) -> String {
    format!("{}:{}:{}:{}", s.0, s.1, s.2 as u32, s.3)
}
fn contig_segs_tok(l: &[Seg]) -> String {
    if l.is_empty() {
        return "-".into();
    }
    l.iter().map(seg_tok).collect::<Vec<_>>().join("/")
}
fn sample_segs_tok(l: &[Vec<Seg>]) -> String {
    if l.is_empty() {
        return ".".into();
    }
    l.iter().map(|c| contig_segs_tok(c)).collect::<Vec<_>>().join(",")
}
fn seg_table_tok(t: &[Vec<Vec<Seg>>]) -> String {
    if t.is_empty() {
        return "!".into();
    }
    t.iter().map(|s| sample_segs_tok(s)).collect::<Vec<_>>().join(";")
}

fn outcome<T>(r: Result<anyhow::Result<T>, String>, f: impl FnOnce(T) -> String) -> String {
    match r {
        Ok(Ok(v)) => format!("ok {}", f(v)),
        Ok(Err(_)) => "err".into(),
        Err(_) => "panic".into(),
    }
}

// ------------------------------------------------------------------ the real code

fn s_name(i: usize) -> String {
    format!("s{i}")
}

/// A reader-side collection with `total` samples called s0.. and no contigs.
fn fresh_with_samples(names: &[String]) -> CollectionV3 {
    let mut src = Vec::new();
    CollectionVarInt::encode(&mut src, names.len() as u32);
    for n in names {
        CollectionVarInt::encode_string(&mut src, n);
    }
    let mut c = CollectionV3::new();
    c.verif_deserialize_sample_names(&src).expect("sample names");
    c
}

fn contig_names_of(c: &CollectionV3, samples: &[String]) -> Vec<Vec<Vec<u8>>> {
    samples
        .iter()
        .map(|s| c.get_contig_list(s).unwrap_or_default().into_iter().map(|n| n.into_bytes()).collect())
        .collect()
}

fn segs_of(c: &CollectionV3, samples: &[String]) -> Vec<Vec<Vec<Seg>>> {
    samples
        .iter()
        .map(|s| {
            c.get_sample_desc(s)
                .unwrap_or_default()
                .into_iter()
                .map(|(_, v)| v.iter().map(|d| (d.group_id, d.in_group_id, d.is_rev_comp, d.raw_length)).collect())
                .collect()
        })
        .collect()
}

/// Real `deserialize_contig_names(data, i_sample)` on a collection with `total` empty samples.
fn real_names_dec(total: usize, i_sample: usize, data: &[u8]) -> String {
    let names: Vec<String> = (0..total).map(s_name).collect();
    let r = guarded(|| {
        let mut c = fresh_with_samples(&names);
        c.verif_deserialize_contig_names(data, i_sample).map(|_| {
            let before = c.verif_samples_loaded();
            c.verif_advance_samples_loaded();
            let n = c.verif_samples_loaded() - before;
            contig_names_of(&c, &names[i_sample..i_sample + n])
        })
    });
    outcome(r, |t| name_table_tok(&t))
}

/// A reader-side collection whose samples have the given numbers of contigs (no segments).
fn fresh_with_contigs(counts: &[usize]) -> (CollectionV3, Vec<String>) {
    let names: Vec<String> = (0..counts.len()).map(s_name).collect();
    let mut c = fresh_with_samples(&names);
    let mut d = Vec::new();
    CollectionVarInt::encode(&mut d, counts.len() as u32);
    for &n in counts {
        CollectionVarInt::encode(&mut d, n as u32);
        for j in 0..n {
            CollectionVarInt::encode_string(&mut d, &format!("c{j}"));
        }
    }
    c.verif_deserialize_contig_names(&d, 0).expect("contig names");
    (c, names)
}

struct Cat {
    k: u32,
    ss: u32,
    /// samples in first-seen order, contigs in push order
    samples: Vec<(String, Vec<(String, Vec<Seg>)>)>,
}

impl Cat {
    fn sample_names(&self) -> Vec<String> {
        self.samples.iter().map(|s| s.0.clone()).collect()
    }
    fn names_table(&self) -> Vec<Vec<Vec<u8>>> {
        self.samples.iter().map(|s| s.1.iter().map(|c| c.0.clone().into_bytes()).collect()).collect()
    }
    fn seg_table(&self) -> Vec<Vec<Vec<Seg>>> {
        self.samples.iter().map(|s| s.1.iter().map(|c| c.1.clone()).collect()).collect()
    }
    fn sample_list_tok(&self) -> String {
        name_list_tok(&self.samples.iter().map(|s| s.0.clone().into_bytes()).collect::<Vec<_>>())
    }
    fn listing(&self) -> String {
        format!("{} {} {}", self.sample_list_tok(), name_table_tok(&self.names_table()), seg_table_tok(&self.seg_table()))
    }
}

fn listing_of(c: &CollectionV3) -> String {
    let names = c.get_samples_list(false);
    let nb: Vec<Vec<u8>> = names.iter().map(|n| n.clone().into_bytes()).collect();
    format!("{} {} {}", name_list_tok(&nb), name_table_tok(&contig_names_of(c, &names)), seg_table_tok(&segs_of(c, &names)))
}

/// Writer-side collection: register every (sample, contig) in the given order, then place segments.
fn build_real(cat: &Cat, order: &[(usize, usize)]) -> CollectionV3 {
    let mut c = CollectionV3::new();
    c.set_config(cat.ss, cat.k, None);
    for &(si, ci) in order {
        let (sn, cs) = &cat.samples[si];
        c.register_sample_contig(sn, &cs[ci].0).expect("register");
    }
    for (sn, cs) in &cat.samples {
        for (cn, segs) in cs {
            for (p, s) in segs.iter().enumerate() {
                c.add_segment_placed(sn, cn, p, s.0, s.1, s.2, s.3).expect("place");
            }
        }
    }
    c
}

fn natural_order(cat: &Cat) -> Vec<(usize, usize)> {
    let mut o = vec![];
    for (si, s) in cat.samples.iter().enumerate() {
        for ci in 0..s.1.len() {
            o.push((si, ci));
        }
    }
    o
}

// ------------------------------------------------------------------ generators

const WORDS: &[&str] = &[
    "chr", "contig", "scaffold", "unplaced", "Homo", "sapiens", "isolate", "NA12878", "haplotype", "len=",
    "GRCh38", "T2T", "v1.0", "whole", "genome", "shotgun", "sequence", "mitochondrion", "HG002#1#", "HG002#2#",
];

fn rand_printable(r: &mut Rng, len: usize, tabs: bool) -> Vec<u8> {
    (0..len)
        .map(|_| {
            if tabs && r.chance(1, 25) {
                9u8
            } else {
                r.range(33, 126) as u8
            }
        })
        .collect()
}

fn gen_field(r: &mut Rng) -> Vec<u8> {
    match r.below(12) {
        0 => vec![],
        1 | 2 => r.pick(WORDS).as_bytes().to_vec(),
        3 => format!("{}{}", r.pick(WORDS), r.below(30)).into_bytes(),
        4 => format!("{:06}", r.below(1_000_000)).into_bytes(),
        5 => {
            // a long run of one character, 90..260, sometimes with a few other characters inside
            let len = *r.pick(&[90usize, 99, 100, 101, 102, 150, 199, 200, 201, 202, 255, 260]) + r.below(3) as usize;
            let ch = r.range(65, 90) as u8;
            let mut f = vec![ch; len];
            for _ in 0..r.below(3) {
                let p = r.below(len as u64) as usize;
                f[p] = r.range(33, 126) as u8;
            }
            f
        }
        6 => {
            let len = r.range(300, 420) as usize;
            rand_printable(r, len, true)
        }
        7 => rand_printable(r, 1, false),
        _ => {
            let len = r.range(1, 14) as usize;
            let tabs = r.chance(1, 4);
            rand_printable(r, len, tabs)
        }
    }
}

fn gen_fresh_name(r: &mut Rng) -> Vec<Vec<u8>> {
    let nf = if r.chance(1, 3) { 1 } else { r.range(1, 8) as usize };
    (0..nf).map(|_| gen_field(r)).collect()
}

fn mutate_fields(r: &mut Rng, prev: &[Vec<u8>]) -> Vec<Vec<u8>> {
    let mut f: Vec<Vec<u8>> = prev.to_vec();
    let nm = r.range(1, 3);
    for _ in 0..nm {
        let i = r.below(f.len() as u64) as usize;
        match r.below(10) {
            0 => f[i] = gen_field(r), // most likely another length
            1 => f[i] = vec![],
            2 => {
                if f.len() < 9 {
                    let g = gen_field(r);
                    f.insert(i, g);
                }
            }
            3 => {
                if f.len() > 1 {
                    f.remove(i);
                }
            }
            4 => {
                // numeric increment keeping the length when possible
                if let Ok(s) = std::str::from_utf8(&f[i]) {
                    if let Ok(v) = s.parse::<u64>() {
                        f[i] = format!("{:0w$}", v + 1 + r.below(3), w = s.len()).into_bytes();
                    }
                }
            }
            5 => {
                // same length, everything different
                let l = f[i].len();
                f[i] = rand_printable(r, l, false);
            }
            _ => {
                // same length, a few characters changed (equal runs in between, possibly > 100)
                if !f[i].is_empty() {
                    for _ in 0..r.range(1, 3) {
                        let p = r.below(f[i].len() as u64) as usize;
                        f[i][p] = if r.chance(1, 15) { 9 } else { r.range(33, 126) as u8 };
                    }
                }
            }
        }
    }
    f
}

fn join_sp(f: &[Vec<u8>]) -> Vec<u8> {
    f.join(&b' ')
}

/// Contig names of one sample, from the grammar.
fn gen_sample_names(r: &mut Rng, n: usize) -> Vec<Vec<u8>> {
    let mut out: Vec<Vec<u8>> = vec![];
    let style = r.below(4);
    let mut prev: Vec<Vec<u8>> = vec![];
    for j in 0..n {
        let f = if style == 0 {
            // PanSN / NCBI-like headers
            let mut f = vec![format!("HG{:05}#1#chr{}", 2 + r.below(2), j + 1).into_bytes()];
            if r.chance(3, 4) {
                f.push(b"Homo".to_vec());
                f.push(b"sapiens".to_vec());
                f.push(format!("len={}", 100000 + r.below(900000)).into_bytes());
            }
            f
        } else if prev.is_empty() || r.chance(1, 5) {
            gen_fresh_name(r)
        } else {
            mutate_fields(r, &prev)
        };
        prev = f.clone();
        out.push(join_sp(&f));
    }
    out
}

struct NameStats {
    full: u64,
    delta: u64,
    same: u64,
    raw_field: u64,
    rle_field: u64,
    run_gt100: u64,
    empty_field: u64,
    tab: u64,
    long: u64,
}

fn name_stats(samples: &[Vec<Vec<u8>>]) -> NameStats {
    let mut st = NameStats { full: 0, delta: 0, same: 0, raw_field: 0, rle_field: 0, run_gt100: 0, empty_field: 0, tab: 0, long: 0 };
    for s in samples {
        let mut prev: Vec<&[u8]> = vec![];
        for n in s {
            let cur: Vec<&[u8]> = n.split(|&b| b == b' ').collect();
            if n.contains(&9) {
                st.tab += 1;
            }
            if n.len() >= 300 {
                st.long += 1;
            }
            if cur.iter().any(|f| f.is_empty()) {
                st.empty_field += 1;
            }
            if cur.len() != prev.len() {
                st.full += 1;
            } else {
                st.delta += 1;
                for (p, c) in prev.iter().zip(cur.iter()) {
                    if p == c {
                        st.same += 1;
                    } else if p.len() != c.len() {
                        st.raw_field += 1;
                    } else {
                        st.rle_field += 1;
                        let mut run = 0;
                        for (a, b) in p.iter().zip(c.iter()) {
                            if a == b {
                                run += 1;
                                if run == 101 {
                                    st.run_gt100 += 1;
                                }
                            } else {
                                run = 0;
                            }
                        }
                    }
                }
            }
            prev = cur;
        }
    }
    st
}

fn count_stats(rep: &mut Report, st: &NameStats) {
    rep.add("branch_name_full", st.full);
    rep.add("branch_name_delta", st.delta);
    rep.add("branch_field_same_marker", st.same);
    rep.add("branch_field_raw_other_length", st.raw_field);
    rep.add("branch_field_rle", st.rle_field);
    rep.add("branch_run_gt_100", st.run_gt100);
    rep.add("branch_empty_field", st.empty_field);
    rep.add("branch_name_with_tab", st.tab);
    rep.add("branch_name_300plus", st.long);
}

fn dedup_first(v: Vec<Vec<u8>>) -> Vec<Vec<u8>> {
    let mut out: Vec<Vec<u8>> = vec![];
    for n in v {
        if !out.contains(&n) {
            out.push(n);
        }
    }
    out
}

struct DetStats {
    hit: u64,
    miss: u64,
    first: u64,
    zero: u64,
    back: u64,
    len_exact: u64,
    len_near: u64,
    len_far: u64,
}

fn gen_seg_table(r: &mut Rng, shape: &[Vec<usize>], k: u32, ss: u32, wild: bool, st: &mut DetStats) -> Vec<Vec<Vec<Seg>>> {
    let pred = ss.wrapping_add(k);
    let ngroups = r.range(1, 40) as usize;
    let groups: Vec<u32> = (0..ngroups)
        .map(|i| match r.below(6) {
            0 => i as u32,
            1 => 16 + r.below(2000) as u32,
            2 => r.below(200_000) as u32,
            _ => 16 + i as u32 * 3,
        })
        .collect();
    let mut next: std::collections::HashMap<u32, u32> = Default::default();
    let mut seen: std::collections::HashMap<u32, i64> = Default::default(); // predictor as the code keeps it
    shape
        .iter()
        .map(|cs| {
            cs.iter()
                .map(|&n| {
                    (0..n)
                        .map(|_| {
                            let g = *r.pick(&groups);
                            let nx = next.entry(g).or_insert(0);
                            let id = match r.below(20) {
                                0 => 0,
                                1 => nx.saturating_sub(1 + r.below(3) as u32),
                                2 => *nx + 1 + r.below(50) as u32,
                                3 => r.below(1 << 20) as u32,
                                4 => {
                                    if wild {
                                        *r.pick(&[0x7fff_fffeu32, 0x7fff_ffff, 0x8000_0000, 0xffff_ffff, 0xffff_fffe])
                                    } else {
                                        *r.pick(&[0x7fff_fffdu32, 0x7fff_fffe, 0x4000_0000])
                                    }
                                }
                                5 => r.below(3) as u32,
                                _ => *nx,
                            };
                            if id >= *nx && id < 0x7000_0000 {
                                *nx = id + 1;
                            }
                            let prev = *seen.get(&g).unwrap_or(&-1);
                            if prev == -1 {
                                st.first += 1;
                            } else if id == 0 {
                                st.zero += 1;
                            } else if id as i64 == prev + 1 {
                                st.hit += 1;
                            } else {
                                st.miss += 1;
                                if (id as i64) < prev + 1 {
                                    st.back += 1;
                                }
                            }
                            if (id as i32 as i64) > prev && id > 0 {
                                seen.insert(g, id as i32 as i64);
                            }
                            let len = match r.below(12) {
                                0 => 0,
                                1 => r.below(40) as u32,
                                2 => pred.wrapping_mul(2).wrapping_add(r.below(5) as u32).wrapping_sub(2),
                                3 => {
                                    if wild {
                                        *r.pick(&[u32::MAX, u32::MAX - 1, 0x8000_0000, 0x7fff_ffff])
                                    } else {
                                        r.below(1 << 31) as u32
                                    }
                                }
                                4 | 5 => pred.wrapping_add(r.below(11) as u32).wrapping_sub(5),
                                6 => pred.wrapping_add(r.below(20000) as u32).wrapping_sub(10000),
                                _ => pred,
                            };
                            let d = (len as i64 - pred as i64).abs();
                            if d == 0 {
                                st.len_exact += 1;
                            } else if d <= 5 {
                                st.len_near += 1;
                            } else {
                                st.len_far += 1;
                            }
                            (g, id, r.chance(1, 3), len)
                        })
                        .collect()
                })
                .collect()
        })
        .collect()
}

fn count_det(rep: &mut Report, st: &DetStats) {
    rep.add("branch_pred_first_in_group", st.first);
    rep.add("branch_pred_hit", st.hit);
    rep.add("branch_pred_miss_zigzag", st.miss);
    rep.add("branch_pred_id_goes_back", st.back);
    rep.add("branch_pred_id_zero", st.zero);
    rep.add("branch_len_exact", st.len_exact);
    rep.add("branch_len_near", st.len_near);
    rep.add("branch_len_far", st.len_far);
}

fn gen_params(r: &mut Rng, wild: bool) -> (u32, u32) {
    let k = r.range(1, 32) as u32;
    let ss = match r.below(10) {
        0 => 1000,
        1 => 10000,
        2 => r.range(1, 200) as u32,
        3 => {
            if wild {
                *r.pick(&[0x8000_0000u32, 0xffff_fff0, 0x7fff_fff0])
            } else {
                *r.pick(&[0x7fff_ff00u32, 1 << 20, 0x7fff_ffe0])
            }
        }
        _ => 60000,
    };
    (k, ss)
}

/// Is the descriptor table inside the domain of `details_roundtrip`?
fn det_in_domain(t: &[Vec<Vec<Seg>>], k: u32, ss: u32) -> bool {
    (ss as u64 + k as u64) <= (1u64 << 31) && t.iter().flatten().flatten().all(|s| (s.1 as u64) + 1 < (1u64 << 31))
}

fn gen_sample_name(r: &mut Rng, i: usize) -> String {
    let base = match r.below(5) {
        0 => format!("HG{:05}", i),
        1 => format!("sample {} with spaces", i),
        2 => format!("{}#{}", r.pick(WORDS), i),
        3 => {
            let len = r.range(1, 20) as usize;
            String::from_utf8(rand_printable(r, len, true)).unwrap() + &format!("_{i}")
        }
        _ => format!("S{i}"),
    };
    base
}

fn gen_cat(r: &mut Rng, nsamples: usize, max_contigs: usize, max_segs: usize, wild: bool, rep: &mut Report) -> Cat {
    let (k, ss) = gen_params(r, wild);
    let mut samples = vec![];
    let mut shape = vec![];
    let mut names_tab = vec![];
    for i in 0..nsamples {
        let nc = if r.chance(1, 6) { 1 } else { r.range(1, max_contigs as u64) as usize };
        let names = dedup_first(gen_sample_names(r, nc));
        shape.push(names.iter().map(|_| if r.chance(1, 8) { 0 } else { r.range(1, max_segs as u64) as usize }).collect::<Vec<_>>());
        names_tab.push(names.clone());
        samples.push((gen_sample_name(r, i), names));
    }
    let mut st = DetStats { hit: 0, miss: 0, first: 0, zero: 0, back: 0, len_exact: 0, len_near: 0, len_far: 0 };
    let segs = gen_seg_table(r, &shape, k, ss, wild, &mut st);
    count_det(rep, &st);
    count_stats(rep, &name_stats(&names_tab));
    Cat {
        k,
        ss,
        samples: samples
            .into_iter()
            .zip(segs)
            .map(|((sn, names), sg)| (sn, names.into_iter().map(|n| String::from_utf8(n).unwrap()).zip(sg).collect()))
            .collect(),
    }
}

// ------------------------------------------------------------------ cases

fn ask_cmp(ctx: &mut Ctx, rep: &mut Report, what: &str, req: &str, real: &str, case: &Value) {
    if let Some(m) = ctx.ask(req) {
        if m != real {
            rep.disagree(what, case.clone(), &m, real);
        }
    }
}

fn cv_case(ctx: &mut Ctx, rep: &mut Report, n: u32) {
    let case = json!({"kind": "cv", "n": n});
    rep.case(&("cv", n), true);
    let mut e = Vec::new();
    CollectionVarInt::encode(&mut e, n);
    rep.count(&format!("branch_cv_len_{}", e.len()));
    ask_cmp(ctx, rep, "cv-enc", &format!("cv-enc {n}"), &format!("ok {}", hex(&e)), &case);
    // oracle: decode(encode n ++ tail) = (n, tail)
    let mut buf = e.clone();
    buf.extend_from_slice(&[0xAB, 0x00, 0xF3]);
    let r = guarded(|| {
        let mut p = buf.as_slice();
        CollectionVarInt::decode(&mut p).map(|v| (v, buf.len() - p.len()))
    });
    match r {
        Ok(Ok((v, used))) if v == n && used == e.len() => {}
        other => rep.oracle_fail("cv-roundtrip", &format!("decode(encode {n}) = {other:?}"), case.clone()),
    }
    // every proper prefix is an error
    for cut in 0..e.len() {
        let r = guarded(|| {
            let mut p = &e[..cut];
            CollectionVarInt::decode(&mut p).is_err()
        });
        if r != Ok(true) {
            rep.oracle_fail("cv-truncated-accepted", &format!("decode of {cut}-byte prefix of encode({n}) = {r:?}"), case.clone());
        }
    }
}

fn cvdec_case(ctx: &mut Ctx, rep: &mut Report, data: &[u8]) {
    let case = json!({"kind": "cvdec", "data": hex(data)});
    rep.case(&("cvdec", data), !data.is_empty());
    let r = guarded(|| {
        let mut p = data;
        CollectionVarInt::decode(&mut p).map(|v| (v, data.len() - p.len()))
    });
    let real = outcome(r, |(v, u)| format!("{v} {u}"));
    ask_cmp(ctx, rep, "cv-dec", &format!("cv-dec {}", hex(data)), &real, &case);
}

fn str_case(ctx: &mut Ctx, rep: &mut Report, data: &[u8]) {
    let case = json!({"kind": "str", "data": hex(data)});
    rep.case(&("str", data), true);
    let r = guarded(|| {
        let mut p = data;
        CollectionVarInt::decode_string(&mut p).map(|s| (s, data.len() - p.len()))
    });
    let real = outcome(r, |(s, u)| format!("{} {u}", hex(s.as_bytes())));
    ask_cmp(ctx, rep, "cv-str-dec", &format!("cv-str-dec {}", hex(data)), &real, &case);
    // the two std conversions the collection code applies to decoded bytes
    let valid = std::str::from_utf8(data).is_ok();
    let lossy = String::from_utf8_lossy(data).into_owned();
    if !valid {
        rep.count("branch_invalid_utf8");
    }
    ask_cmp(ctx, rep, "cv-utf8", &format!("cv-utf8 {}", hex(data)), &format!("ok {} {}", valid, hex(lossy.as_bytes())), &case);
}

fn zz_case(ctx: &mut Ctx, rep: &mut Report, x: u64, p: u64) {
    let case = json!({"kind": "zz", "x": x.to_string(), "p": p.to_string()});
    rep.case(&("zz", x, p), true);
    let e = guarded(|| zigzag_encode(x, p));
    let real = match &e {
        Ok(v) => format!("ok {v}"),
        Err(_) => "panic".into(),
    };
    ask_cmp(ctx, rep, "zz-enc", &format!("zz-enc {x} {p}"), &real, &case);
    let d = guarded(|| zigzag_decode(x, p));
    let real = match &d {
        Ok(v) => format!("ok {v}"),
        Err(_) => "panic".into(),
    };
    ask_cmp(ctx, rep, "zz-dec", &format!("zz-dec {x} {p}"), &real, &case);
    if x < (1 << 63) && p < (1 << 62) {
        if x < p {
            rep.count("branch_zz_below");
        } else if x < 2 * p {
            rep.count("branch_zz_above_near");
        } else {
            rep.count("branch_zz_escape");
        }
        match e {
            Ok(v) => {
                if guarded(|| zigzag_decode(v, p)) != Ok(x) {
                    rep.oracle_fail("zigzag-roundtrip", &format!("zigzag_decode(zigzag_encode({x},{p}),{p}) != {x}"), case.clone());
                }
                if x != p && !(x == 0 && p == 0) && v == 0 {
                    rep.oracle_fail("zigzag-escape-collides", &format!("zigzag_encode({x},{p}) = 0 for x != p"), case.clone());
                }
            }
            Err(m) => rep.oracle_fail("zigzag-panic", &m, case.clone()),
        }
    }
    // canonical code (Props.C03.zigzag_code_canonical): where `x + 2p` does not wrap, the code word
    // `x` is the code of the value it decodes to
    if let Some(s) = p.checked_mul(2).and_then(|pp| pp.checked_add(x)) {
        let _ = s;
        rep.count("branch_zz_canonical_checked");
        match d {
            Ok(val) => {
                if guarded(|| zigzag_encode(val, p)) != Ok(x) {
                    rep.oracle_fail("zigzag-code-not-canonical", &format!("zigzag_encode(zigzag_decode({x},{p}),{p}) != {x}"), case.clone());
                }
            }
            Err(m) => rep.oracle_fail("zigzag-panic", &m, case.clone()),
        }
    }
}

fn prim_cases(ctx: &mut Ctx, rep: &mut Report) {
    let thr = [0u32, 128, 16512, 2113664, 270549120];
    let mut ns: Vec<u32> = (0..ctx.t(3000u32, 70000)).collect();
    for t in thr {
        for d in 0..ctx.t(40u32, 400) {
            ns.push(t.wrapping_add(d));
            ns.push(t.wrapping_sub(d));
        }
    }
    for s in 0..32 {
        ns.push(1u32 << s);
        ns.push((1u32 << s).wrapping_sub(1));
    }
    ns.push(u32::MAX);
    for i in 0..ctx.t(2000u64, 40000) {
        let mut r = Rng::new(ctx.seed, S_PRIM, i);
        let bits = r.range(1, 32);
        ns.push((r.next() >> (64 - bits)) as u32);
    }
    for n in ns {
        cv_case(ctx, rep, n);
    }
    // decoder on arbitrary bytes (all first bytes, truncations, 5-byte forms that wrap)
    for b0 in 0..=255u8 {
        for len in 0..6usize {
            let mut r = Rng::new(ctx.seed, S_PRIM + 1, b0 as u64 * 8 + len as u64);
            let mut d = vec![b0];
            for _ in 0..len {
                d.push(if r.chance(1, 3) { 0xff } else { r.below(256) as u8 });
            }
            cvdec_case(ctx, rep, &d);
        }
    }
    cvdec_case(ctx, rep, &[]);
    cvdec_case(ctx, rep, &[0xff, 0xff, 0xff, 0xff, 0xff]);
    cvdec_case(ctx, rep, &[0xf0, 0xef, 0xdf, 0xbf, 0x80]);
    // strings / UTF-8
    for i in 0..ctx.t(3000u64, 40000) {
        let mut r = Rng::new(ctx.seed, S_PRIM + 2, i);
        let len = r.below(14) as usize;
        let style = r.below(4);
        let mut d: Vec<u8> = vec![];
        while d.len() < len {
            match (style, r.below(8)) {
                (0, _) => d.push(r.range(0, 127) as u8),
                (_, 0) => d.push(0),
                (_, 1) => d.extend_from_slice("é".as_bytes()),
                (_, 2) => d.extend_from_slice("€".as_bytes()),
                (_, 3) => d.extend_from_slice("𝄞".as_bytes()),
                (_, 4) => d.push(*r.pick(&[0x80u8, 0xbf, 0xc0, 0xc1, 0xc2, 0xe0, 0xed, 0xef, 0xf0, 0xf4, 0xf5, 0xff, 0xa0, 0x9f, 0x90, 0x8f])),
                (_, 5) => d.push(r.below(256) as u8),
                _ => d.push(r.range(32, 126) as u8),
            }
        }
        if style == 3 && !d.is_empty() {
            let p = r.below(d.len() as u64) as usize;
            d.truncate(p + 1);
        }
        str_case(ctx, rep, &d);
    }
    // zigzag: exhaustive small, then random
    let m = ctx.t(40u64, 120);
    for x in 0..m {
        for p in 0..m {
            zz_case(ctx, rep, x, p);
        }
    }
    for i in 0..ctx.t(3000u64, 60000) {
        let mut r = Rng::new(ctx.seed, S_PRIM + 3, i);
        let (x, p) = match r.below(6) {
            0 => (r.next(), r.next()),
            1 => {
                let p = r.next() >> r.range(1, 40);
                (p.wrapping_add(r.below(9)).wrapping_sub(4), p)
            }
            2 => {
                let p = r.below(1 << 32);
                (p.wrapping_mul(2).wrapping_add(r.below(5)).wrapping_sub(2), p)
            }
            3 => (*r.pick(&[0u64, 1, u64::MAX, 1 << 63, (1 << 63) - 1, 1 << 32]), *r.pick(&[0u64, 1, u64::MAX, 1 << 63, (1 << 63) - 1, 1 << 62, 0xFFFF_FFFF_8000_0000])),
            _ => (r.below(1 << 32), r.below(1 << 32)),
        };
        zz_case(ctx, rep, x, p);
    }
}

/// One table of contig names (several samples) through serialise / deserialise.
fn names_case(ctx: &mut Ctx, rep: &mut Report, idx: u64) {
    let mut r = Rng::new(ctx.seed, S_NAMES, idx);
    let case = json!({"kind": "names", "index": idx, "seed": ctx.seed});
    let ns = if r.chance(1, 2) { 1 } else { r.range(1, 5) as usize };
    let table: Vec<Vec<Vec<u8>>> = (0..ns)
        .map(|_| {
            let n = r.range(1, 12) as usize;
            dedup_first(gen_sample_names(&mut r, n))
        })
        .collect();
    rep.case(&table, true);
    count_stats(rep, &name_stats(&table));
    let snames: Vec<String> = (0..ns).map(s_name).collect();
    // writer side
    let enc = guarded(|| {
        let mut c = CollectionV3::new();
        for (i, s) in table.iter().enumerate() {
            for n in s {
                c.register_sample_contig(&snames[i], std::str::from_utf8(n).unwrap()).unwrap();
            }
        }
        c.verif_serialize_contig_names(0, ns)
    });
    let enc = match enc {
        Ok(e) => e,
        Err(p) => {
            rep.oracle_fail("names-serialize-panic", &p, case);
            return;
        }
    };
    let tok = name_table_tok(&table);
    ask_cmp(ctx, rep, "names-enc", &format!("names-enc {tok}"), &format!("ok {}", hex(&enc)), &case);
    // reader side on the real bytes, at a cursor
    let i_sample = r.below(3) as usize;
    let total = i_sample + ns + r.below(2) as usize;
    let real = real_names_dec(total, i_sample, &enc);
    ask_cmp(ctx, rep, "names-dec", &format!("names-dec {} {}", total - i_sample, hex(&enc)), &real, &case);
    if real != format!("ok {tok}") {
        rep.oracle_fail(
            "names-roundtrip",
            &format!("contig names read back differ: registered {} got {}", crate::report::clip(&tok), crate::report::clip(&real)),
            json!({"kind": "names", "index": idx, "seed": ctx.seed, "table": tok}),
        );
    }
    if idx < 3 {
        rep.sample(json!({"kind": "names", "table": table.iter().map(|s| s.iter().map(|n| String::from_utf8_lossy(n).into_owned()).collect::<Vec<_>>()).collect::<Vec<_>>(), "bytes": enc.len()}));
    }
}

/// Outside the property's domain (valid UTF-8 but non-ASCII contig names registered through the
/// public API): model and code must still agree byte for byte and outcome for outcome; how often
/// such a table does not survive the trip is only counted.
fn names_utf8_case(ctx: &mut Ctx, rep: &mut Report, idx: u64) {
    let mut r = Rng::new(ctx.seed, S_NAMES + 0x40, idx);
    let case = json!({"kind": "names-utf8", "index": idx, "seed": ctx.seed});
    let n = r.range(2, 6) as usize;
    let mut names: Vec<String> = vec![];
    let glyphs = ["é", "ü", "€", "𝄞", "ß", "x", "chr", "1", "2"];
    let mut prev: Vec<String> = vec![];
    for _ in 0..n {
        let nf = if prev.is_empty() || r.chance(1, 4) { r.range(1, 3) as usize } else { prev.len() };
        let f: Vec<String> = (0..nf)
            .map(|i| {
                if i < prev.len() && r.chance(1, 3) {
                    prev[i].clone()
                } else {
                    (0..r.range(1, 3)).map(|_| *r.pick(&glyphs)).collect::<String>()
                }
            })
            .collect();
        prev = f.clone();
        let nm = f.join(" ");
        if !names.contains(&nm) {
            names.push(nm);
        }
    }
    let table = vec![names.iter().map(|s| s.clone().into_bytes()).collect::<Vec<_>>()];
    rep.case(&("utf8", &table), true);
    let enc = guarded(|| {
        let mut c = CollectionV3::new();
        for nm in &names {
            c.register_sample_contig("s0", nm).unwrap();
        }
        c.verif_serialize_contig_names(0, 1)
    });
    let enc = match enc {
        Ok(e) => e,
        Err(_) => {
            rep.count("probe_nonascii_serialize_panic");
            return;
        }
    };
    let tok = name_table_tok(&table);
    ask_cmp(ctx, rep, "names-enc(non-ascii)", &format!("names-enc {tok}"), &format!("ok {}", hex(&enc)), &case);
    let real = real_names_dec(1, 0, &enc);
    ask_cmp(ctx, rep, "names-dec(non-ascii)", &format!("names-dec 1 {}", hex(&enc)), &real, &case);
    if real == format!("ok {tok}") {
        rep.count("probe_nonascii_names_roundtrip_ok");
    } else if real == "panic" {
        rep.count("probe_nonascii_names_reader_panics");
    } else {
        rep.count("probe_nonascii_names_read_back_differently");
    }
}

/// Pinned inputs: the boundary witnesses of `Props/C03.lean` (outside the domain of
/// `details_roundtrip`) and the smallest non-ASCII name table that the reader cannot load.
fn pinned_cases(ctx: &mut Ctx, rep: &mut Report) {
    let pins: [(u32, u32, Vec<Seg>, &str); 3] = [
        (31, 2147483658, vec![(7, 0, false, 5)], "pinned_len_code_cut_to_u32"),
        (31, 60000, vec![(7, 3, false, 5), (7, u32::MAX, false, 5)], "pinned_escape_plus_one_wraps"),
        (31, 60000, vec![(7, 0x7fff_ffff, false, 5), (7, 5, false, 5), (7, 1, false, 5)], "pinned_prev_plus_one_wraps_i32"),
    ];
    for (k, ss, segs, name) in pins {
        let case = json!({"kind": "pinned", "name": name});
        rep.case(&("pinned", name), true);
        let table = vec![vec![segs.clone()]];
        let tok = seg_table_tok(&table);
        let enc = guarded(|| {
            let (mut c, names) = fresh_with_contigs(&[1]);
            c.set_config(ss, k, None);
            for (p, g) in segs.iter().enumerate() {
                c.add_segment_placed(&names[0], "c0", p, g.0, g.1, g.2, g.3).unwrap();
            }
            c.verif_serialize_contig_details(0, 1)
        });
        let Ok(enc) = enc else {
            rep.count(&format!("{name}_serialize_panics"));
            continue;
        };
        let streams = enc.iter().map(|s| hex(s)).collect::<Vec<_>>().join(" ");
        ask_cmp(ctx, rep, "details-enc(pinned)", &format!("details-enc {k} {ss} {tok}"), &format!("ok {streams}"), &case);
        let real = real_det_dec(k, ss, &[1], 0, &enc).0;
        ask_cmp(ctx, rep, "details-dec(pinned)", &format!("details-dec {k} {ss} [1] {streams}"), &real, &case);
        rep.count(&format!("{name}_{}", if real == format!("ok {tok}") { "roundtrips" } else { "does_not_roundtrip" }));
    }
    // "x" then "é" in one sample: the second name is written raw (other length) and its bytes
    // 0xC3 0xA9 are read as repetition counts
    let case = json!({"kind": "pinned", "name": "pinned_nonascii_names"});
    rep.case(&("pinned", "nonascii"), true);
    let enc = {
        let mut c = CollectionV3::new();
        c.register_sample_contig("s0", "x").unwrap();
        c.register_sample_contig("s0", "é").unwrap();
        c.verif_serialize_contig_names(0, 1)
    };
    ask_cmp(ctx, rep, "names-enc(pinned)", "names-enc 78,c3a9", &format!("ok {}", hex(&enc)), &case);
    let real = real_names_dec(1, 0, &enc);
    ask_cmp(ctx, rep, "names-dec(pinned)", &format!("names-dec 1 {}", hex(&enc)), &real, &case);
    rep.count(&format!("pinned_nonascii_x_then_eacute_reader_{}", real.split(' ').next().unwrap_or("")));
}

/// Malformed contig-name streams: guards of the deserialiser (no oracle; outcome must match the model).
fn names_bad_case(ctx: &mut Ctx, rep: &mut Report, idx: u64) {
    let mut r = Rng::new(ctx.seed, S_NAMES_BAD, idx);
    let case = json!({"kind": "names-bad", "index": idx, "seed": ctx.seed});
    // one sample, so that no count is ever read from mutated payload (a huge count is an
    // allocation, not a result)
    let n0 = r.range(1, 8) as usize;
    let names = dedup_first(gen_sample_names(&mut r, n0));
    let n = names.len();
    let nsamp = if r.chance(1, 10) { 2 } else { 1 }; // second sample: pins the `avail` guard
    let mut payload: Vec<u8> = vec![];
    {
        let mut c = CollectionV3::new();
        for nm in &names {
            c.register_sample_contig("s0", std::str::from_utf8(nm).unwrap()).unwrap();
        }
        let e = c.verif_serialize_contig_names(0, 1);
        payload.extend_from_slice(&e[2.min(e.len())..]); // after the two one-byte counts
    }
    // with two samples the payload stays intact, so that the second count is read where it was put
    let nm = if nsamp == 2 { 0 } else { r.range(1, 4) };
    for _ in 0..nm {
        if payload.is_empty() {
            break;
        }
        let p = r.below(payload.len() as u64) as usize;
        match r.below(9) {
            0 => payload[p] = 0x81,
            1 => payload[p] = 0x80,
            2 => payload[p] = r.range(0x82, 0xff) as u8,
            3 => payload[p] = 0,
            4 => payload[p] = b' ',
            5 => payload.insert(p, *r.pick(&[0x81u8, 0x9c, 0xff, 0xc3, 0xe2, 0x20, 0x00, 0x41])),
            6 => {
                payload.remove(p);
            }
            7 => payload.truncate(p),
            _ => payload[p] = r.below(256) as u8,
        }
    }
    let claimed = match r.below(4) {
        0 => n + 1,
        1 => n.saturating_sub(1),
        _ => n,
    };
    let claimed = if nsamp == 2 { n } else { claimed };
    let mut data = vec![];
    CollectionVarInt::encode(&mut data, nsamp);
    CollectionVarInt::encode(&mut data, claimed as u32);
    data.extend_from_slice(&payload);
    if nsamp == 2 {
        data.push(r.below(3) as u8);
        data.extend_from_slice(b"x y\0x z\0");
    }
    let avail = r.below(4) as usize;
    rep.case(&(&data, avail), true);
    let real = real_names_dec(avail, 0, &data);
    rep.count(&format!("branch_bad_names_{}", real.split(' ').next().unwrap_or("")));
    ask_cmp(ctx, rep, "names-dec(malformed)", &format!("names-dec {} {}", avail, hex(&data)), &real, &case);
}

fn det_case(ctx: &mut Ctx, rep: &mut Report, idx: u64) {
    let mut r = Rng::new(ctx.seed, S_DET, idx);
    let case = json!({"kind": "details", "index": idx, "seed": ctx.seed});
    let wild = r.chance(1, 5);
    let (k, ss) = gen_params(&mut r, wild);
    let ns = r.range(1, 4) as usize;
    let shape: Vec<Vec<usize>> = (0..ns)
        .map(|_| (0..r.range(1, 4)).map(|_| if r.chance(1, 8) { 0 } else { r.range(1, 12) as usize }).collect())
        .collect();
    let mut st = DetStats { hit: 0, miss: 0, first: 0, zero: 0, back: 0, len_exact: 0, len_near: 0, len_far: 0 };
    let table = gen_seg_table(&mut r, &shape, k, ss, wild, &mut st);
    count_det(rep, &st);
    rep.case(&(k, ss, &table), true);
    let in_dom = det_in_domain(&table, k, ss);
    rep.count(if in_dom { "branch_details_in_domain" } else { "branch_details_outside_domain" });
    let counts: Vec<usize> = shape.iter().map(|c| c.len()).collect();
    let tok = seg_table_tok(&table);
    let enc = guarded(|| {
        let (mut c, names) = fresh_with_contigs(&counts);
        c.set_config(ss, k, None);
        for (i, s) in table.iter().enumerate() {
            for (j, segs) in s.iter().enumerate() {
                for (p, g) in segs.iter().enumerate() {
                    c.add_segment_placed(&names[i], &format!("c{j}"), p, g.0, g.1, g.2, g.3).unwrap();
                }
            }
        }
        c.verif_serialize_contig_details(0, ns)
    });
    let enc = match enc {
        Ok(e) => e,
        Err(p) => {
            if in_dom {
                rep.oracle_fail("details-serialize-panic", &p, case);
            }
            return;
        }
    };
    let streams = enc.iter().map(|s| hex(s)).collect::<Vec<_>>().join(" ");
    ask_cmp(ctx, rep, "details-enc", &format!("details-enc {k} {ss} {tok}"), &format!("ok {streams}"), &case);
    // reader side at a cursor, possibly with more contigs than the batch describes
    let i_sample = r.below(3) as usize;
    let mut have: Vec<usize> = vec![1; i_sample];
    have.extend(counts.iter().map(|&c| c + r.below(2) as usize));
    if r.chance(1, 3) {
        have.push(2);
    }
    let real = real_det_dec(k, ss, &have, i_sample, &enc);
    ask_cmp(
        ctx,
        rep,
        "details-dec",
        &format!("details-dec {k} {ss} {} {streams}", nat_list(&have[i_sample..])),
        &real.0,
        &case,
    );
    if in_dom {
        // oracle: every descriptor read back unchanged, nothing else touched
        let mut expect: Vec<Vec<Vec<Seg>>> = have.iter().map(|&n| vec![vec![]; n]).collect();
        for (i, s) in table.iter().enumerate() {
            for (j, c) in s.iter().enumerate() {
                expect[i_sample + i][j] = c.clone();
            }
        }
        if real.1 != Some(expect) {
            rep.oracle_fail(
                "details-roundtrip",
                &format!("descriptor table read back differs: wrote {} got {}", crate::report::clip(&tok), crate::report::clip(&real.0)),
                json!({"kind": "details", "index": idx, "seed": ctx.seed, "k": k, "segment_size": ss, "table": tok}),
            );
        }
    }
    if idx < 2 {
        rep.sample(json!({"kind": "details", "k": k, "segment_size": ss, "table": tok}));
    }
}

/// Real `deserialize_contig_details` at `i_sample` on a collection with `have[i]` contigs in
/// sample i; returns the protocol string (decoded batch = what changed) and the full state.
fn real_det_dec(k: u32, ss: u32, have: &[usize], i_sample: usize, streams: &[Vec<u8>; 5]) -> (String, Option<Vec<Vec<Vec<Seg>>>>) {
    let mut full = None;
    let r = guarded(|| {
        let (mut c, names) = fresh_with_contigs(have);
        c.set_config(ss, k, None);
        c.verif_deserialize_contig_details(streams, i_sample).map(|_| segs_of(&c, &names))
    });
    // the batch shape is in stream 0
    let s = outcome(r, |state| {
        let mut p = streams[0].as_slice();
        let n = CollectionVarInt::decode(&mut p).unwrap() as usize;
        let mut out = vec![];
        for i in 0..n {
            let nc = CollectionVarInt::decode(&mut p).unwrap() as usize;
            for _ in 0..nc {
                CollectionVarInt::decode(&mut p).unwrap();
            }
            out.push(state[i_sample + i][..nc].to_vec());
        }
        let t = seg_table_tok(&out);
        full = Some(state);
        t
    });
    (s, full)
}

fn det_bad_case(ctx: &mut Ctx, rep: &mut Report, idx: u64) {
    let mut r = Rng::new(ctx.seed, S_DET_BAD, idx);
    let case = json!({"kind": "details-bad", "index": idx, "seed": ctx.seed});
    let (k, ss) = gen_params(&mut r, true);
    let ns = r.range(1, 3) as usize;
    let shape: Vec<Vec<usize>> = (0..ns).map(|_| (0..r.range(1, 3)).map(|_| r.range(0, 6) as usize).collect()).collect();
    let mut st = DetStats { hit: 0, miss: 0, first: 0, zero: 0, back: 0, len_exact: 0, len_near: 0, len_far: 0 };
    let table = gen_seg_table(&mut r, &shape, k, ss, true, &mut st);
    let counts: Vec<usize> = shape.iter().map(|c| c.len()).collect();
    let mut enc = {
        let (mut c, names) = fresh_with_contigs(&counts);
        c.set_config(ss, k, None);
        for (i, s) in table.iter().enumerate() {
            for (j, segs) in s.iter().enumerate() {
                for (p, g) in segs.iter().enumerate() {
                    c.add_segment_placed(&names[i], &format!("c{j}"), p, g.0, g.1, g.2, g.3).unwrap();
                }
            }
        }
        match guarded(|| c.verif_serialize_contig_details(0, ns)) {
            Ok(e) => e,
            Err(_) => return,
        }
    };
    // mutate: truncations anywhere; arbitrary bytes in the value streams; stream 0 only gets
    // small one-byte counts (a huge count is an allocation request, not an outcome)
    for _ in 0..r.range(1, 3) {
        let s = r.below(5) as usize;
        if enc[s].is_empty() {
            continue;
        }
        let p = r.below(enc[s].len() as u64) as usize;
        match (s, r.below(4)) {
            (_, 0) => enc[s].truncate(p),
            (0, _) => enc[0][p] = r.below(9) as u8,
            // group ids index (and grow) the predictor vector: keep them small
            // (a byte written into the middle of a multi-byte form would turn its tail into a
            // 4/5-byte prefix, i.e. a multi-GB resize): re-encode a list of small ids instead
            (1, _) => {
                let items: usize = shape.iter().flatten().sum();
                let n = (items + r.below(3) as usize).saturating_sub(1);
                enc[1].clear();
                for _ in 0..n {
                    let g = if r.chance(1, 4) { r.below(300_000) as u32 } else { r.below(40) as u32 };
                    CollectionVarInt::encode(&mut enc[1], g);
                }
            }
            (_, 1) => enc[s][p] = r.below(256) as u8,
            (_, 2) => enc[s].insert(p, r.below(256) as u8),
            _ => enc[s][p] = *r.pick(&[0u8, 1, 2, 3, 0x80, 0xc0, 0xe0, 0xf0, 0xff]),
        }
    }
    let mut have: Vec<usize> = counts.iter().map(|&c| (c + r.below(3) as usize).saturating_sub(1)).collect();
    if r.chance(1, 4) {
        have.pop();
    }
    if r.chance(1, 4) {
        have.push(7);
    }
    rep.case(&(&enc, &have), true);
    let real = real_det_dec(k, ss, &have, 0, &enc).0;
    rep.count(&format!("branch_bad_details_{}", real.split(' ').next().unwrap_or("")));
    let streams = enc.iter().map(|s| hex(s)).collect::<Vec<_>>().join(" ");
    ask_cmp(ctx, rep, "details-dec(malformed)", &format!("details-dec {k} {ss} {} {streams}", nat_list(&have)), &real, &case);
}

/// register / add_segment_placed against the model, incl. re-registration, the empty-sample-name
/// path, out-of-order placement and failing placements.
fn build_case(ctx: &mut Ctx, rep: &mut Report, idx: u64) {
    let mut r = Rng::new(ctx.seed, S_BUILD, idx);
    let case = json!({"kind": "build", "index": idx, "seed": ctx.seed});
    let snames: Vec<String> = (0..r.range(1, 5)).map(|i| if r.chance(1, 8) { String::new() } else { format!("S {i}") }).collect();
    let cnames: Vec<String> = (0..r.range(1, 6))
        .map(|i| match r.below(5) {
            0 => format!("chr{i} some description"),
            1 => format!("  \tlead{i} x"),
            2 => format!("c{i}"),
            3 => " ".to_string(),
            _ => format!("chr{i}\tdesc {}", r.below(3)),
        })
        .collect();
    let mut ops = vec![];
    let mut toks = vec![];
    let mut c = CollectionV3::new();
    let mut nerr = 0;
    let mut expect_samples: Vec<String> = vec![];
    let mut expect_contigs: std::collections::HashMap<String, Vec<String>> = Default::default();
    for _ in 0..r.range(1, 25) {
        let s = r.pick(&snames).clone();
        let cn = r.pick(&cnames).clone();
        if r.chance(2, 3) {
            let stored = if s.is_empty() { cn.split_whitespace().next().unwrap_or(&cn).to_string() } else { s.clone() };
            if !expect_samples.contains(&stored) {
                expect_samples.push(stored.clone());
            }
            let v = expect_contigs.entry(stored).or_default();
            if !v.contains(&cn) {
                v.push(cn.clone());
            }
            c.register_sample_contig(&s, &cn).unwrap();
            toks.push(format!("r:{}:{}", hex(s.as_bytes()), hex(cn.as_bytes())));
            ops.push(0);
        } else {
            let place = r.below(5) as usize;
            let seg: Seg = (r.below(50) as u32, r.below(9) as u32, r.chance(1, 2), r.below(70000) as u32);
            if c.add_segment_placed(&s, &cn, place, seg.0, seg.1, seg.2, seg.3).is_err() {
                nerr += 1;
            }
            toks.push(format!("p:{}:{}:{}:{}", hex(s.as_bytes()), hex(cn.as_bytes()), place, seg_tok(&seg)));
            ops.push(1);
        }
    }
    rep.case(&toks, true);
    let real = format!("ok {} {}", nerr, listing_of(&c));
    ask_cmp(ctx, rep, "coll-build", &format!("coll-build {}", toks.join(",")), &real, &case);
    // oracle: first-seen sample order, push order of contigs
    let got_s = c.get_samples_list(false);
    if got_s != expect_samples {
        rep.oracle_fail("register-order", &format!("samples {got_s:?} != first-seen {expect_samples:?}"), case.clone());
    }
    for s in &expect_samples {
        if c.get_contig_list(s).as_ref() != expect_contigs.get(s) {
            rep.oracle_fail("register-order", &format!("contigs of {s:?}: {:?} != {:?}", c.get_contig_list(s), expect_contigs.get(s)), case.clone());
        }
    }
}

/// Whole catalogue, 1..130 samples: one-shot and in batches of 50 with the cursor, through the
/// H1 wrappers (no ZSTD, no file).
fn cat_case(ctx: &mut Ctx, rep: &mut Report, idx: u64, with_model: bool) {
    let mut r = Rng::new(ctx.seed, S_CAT, idx);
    let case = json!({"kind": "catalogue", "index": idx, "seed": ctx.seed});
    let nsamples = match r.below(8) {
        0 => 1,
        1 => *r.pick(&[49usize, 50, 51, 99, 100, 101]),
        2 => r.range(102, 130) as usize,
        _ => r.range(2, 120) as usize,
    };
    let cat = gen_cat(&mut r, nsamples, 5, 6, false, rep);
    rep.case(&cat.listing(), true);
    if nsamples > 50 {
        rep.count("branch_multi_batch");
    }
    if nsamples > 100 {
        rep.count("branch_three_batches");
    }
    // registration order: interleave samples (first-seen order must stay that of `cat`)
    let mut order = vec![];
    {
        let mut nextc: Vec<usize> = vec![0; nsamples];
        let mut opened = 0usize; // samples [0, opened) have been seen
        let mut remaining: usize = cat.samples.iter().map(|s| s.1.len()).sum();
        while remaining > 0 {
            let pickable: Vec<usize> = (0..opened.min(nsamples)).filter(|&i| nextc[i] < cat.samples[i].1.len()).collect();
            let si = if opened < nsamples && (pickable.is_empty() || r.chance(1, 2)) {
                opened += 1;
                opened - 1
            } else {
                *r.pick(&pickable)
            };
            order.push((si, nextc[si]));
            nextc[si] += 1;
            remaining -= 1;
        }
    }
    let expect = cat.listing();
    let res = guarded(|| -> anyhow::Result<(String, String, usize, usize)> {
        let mut w = build_real(&cat, &order);
        let written = listing_of(&w);
        let sn = w.verif_serialize_sample_names();
        // (a) one shot
        let names = w.verif_serialize_contig_names(0, nsamples);
        let det = w.verif_serialize_contig_details(0, nsamples);
        let mut rd = CollectionV3::new();
        rd.set_config(cat.ss, cat.k, None);
        rd.verif_deserialize_sample_names(&sn)?;
        rd.verif_deserialize_contig_names(&names, 0)?;
        rd.verif_deserialize_contig_details(&det, 0)?;
        let one = listing_of(&rd);
        // (b) batches of 50 exactly as agc_compressor.rs, loaded in order at the cursor
        let mut rd2 = CollectionV3::new();
        rd2.set_config(cat.ss, cat.k, None);
        rd2.verif_deserialize_sample_names(&sn)?;
        let mut i = 0;
        let mut nb = 0;
        while i < nsamples {
            let e = (i + 50).min(nsamples);
            let bn = w.verif_serialize_contig_names(i, e);
            let bd = w.verif_serialize_contig_details(i, e);
            let at = rd2.verif_samples_loaded();
            rd2.verif_deserialize_contig_names(&bn, at)?;
            rd2.verif_deserialize_contig_details(&bd, at)?;
            rd2.verif_advance_samples_loaded();
            i = e;
            nb += 1;
        }
        if written != one {
            return Ok((written, one, nb, rd2.verif_samples_loaded()));
        }
        Ok((written, listing_of(&rd2), nb, rd2.verif_samples_loaded()))
    });
    match res {
        Ok(Ok((written, got, nb, cursor))) => {
            if written != expect {
                rep.oracle_fail("register-order", "listing of the writer-side collection differs from what was registered", case.clone());
            }
            if got != expect || cursor != nsamples {
                rep.oracle_fail(
                    "catalogue-roundtrip",
                    &format!("catalogue read back differs ({nsamples} samples, cursor {cursor}): expected {} got {}", crate::report::clip(&expect), crate::report::clip(&got)),
                    case.clone(),
                );
            }
            if with_model {
                let real = format!("ok {nb} {cursor} {got}");
                let req = format!(
                    "coll-storeload {} {} 50 {} {} {}",
                    cat.k,
                    cat.ss,
                    cat.sample_list_tok(),
                    name_table_tok(&cat.names_table()),
                    seg_table_tok(&cat.seg_table())
                );
                ask_cmp(ctx, rep, "coll-storeload", &req, &real, &case);
            }
        }
        Ok(Err(e)) => rep.oracle_fail("catalogue-roundtrip", &format!("deserialisation failed: {e}"), case.clone()),
        Err(p) => rep.oracle_fail("catalogue-roundtrip", &format!("panic: {p}"), case.clone()),
    }
    if idx == 0 {
        rep.sample(json!({"kind": "catalogue", "samples": nsamples, "first_sample": cat.samples[0].0, "first_contigs": cat.samples[0].1.iter().map(|c| c.0.clone()).collect::<Vec<_>>()}));
    }
}

/// The slow path: a real archive file, ZSTD, `store_*` / `load_*`, batches of 50.
fn archive_case(ctx: &mut Ctx, rep: &mut Report, idx: u64) {
    let mut r = Rng::new(ctx.seed, S_ARCH, idx);
    let case = json!({"kind": "archive", "index": idx, "seed": ctx.seed});
    // every store costs ~20 level-18/19 ZSTD calls per 3 batches (≈ 0.6 s each)
    let nsamples = match idx % 3 {
        0 => r.range(101, 125) as usize,
        1 => r.range(1, 49) as usize,
        _ => *r.pick(&[50usize, 51, 100]),
    };
    let cat = gen_cat(&mut r, nsamples, 4, 5, false, rep);
    rep.case(&("archive", cat.listing()), true);
    rep.count("branch_real_archive_file");
    if nsamples > 50 {
        rep.count("branch_multi_batch");
    }
    let _ = std::fs::create_dir_all(&ctx.workdir);
    let path = format!("{}/c03-{}-{}.agc", ctx.workdir, ctx.seed, idx);
    let expect = cat.listing();
    let res = guarded(|| -> anyhow::Result<(String, usize)> {
        let mut w = build_real(&cat, &natural_order(&cat));
        let mut a = Archive::new_writer();
        a.open(&path)?;
        w.prepare_for_compression(&mut a)?;
        w.store_batch_sample_names(&mut a)?;
        let n = w.get_no_samples();
        let mut i = 0;
        while i < n {
            let e = (i + 50).min(n);
            w.store_contig_batch(&mut a, i, e)?;
            i = e;
        }
        a.flush_buffers()?;
        a.close()?;
        let mut ar = Archive::new_reader();
        ar.open(&path)?;
        let mut rd = CollectionV3::new();
        rd.set_config(cat.ss, cat.k, None);
        rd.prepare_for_decompression(&ar)?;
        rd.load_batch_sample_names(&mut ar)?;
        let nb = rd.get_no_contig_batches(&ar)?;
        for b in 0..nb {
            rd.load_contig_batch(&mut ar, b)?;
        }
        Ok((listing_of(&rd), nb))
    });
    let _ = std::fs::remove_file(&path);
    match res {
        Ok(Ok((got, nb))) => {
            if got != expect || nb != nsamples.div_ceil(50) {
                rep.oracle_fail(
                    "catalogue-roundtrip",
                    &format!("through an archive file ({nsamples} samples, {nb} batches): expected {} got {}", crate::report::clip(&expect), crate::report::clip(&got)),
                    case,
                );
            }
        }
        Ok(Err(e)) => rep.oracle_fail("catalogue-roundtrip", &format!("archive path failed: {e}"), case),
        Err(p) => rep.oracle_fail("catalogue-roundtrip", &format!("archive path panicked: {p}"), case),
    }
}

fn sample_names_cases(ctx: &mut Ctx, rep: &mut Report) {
    for idx in 0..ctx.t(300u64, 4000) {
        let mut r = Rng::new(ctx.seed, S_PRIM + 4, idx);
        let case = json!({"kind": "snames", "index": idx, "seed": ctx.seed});
        let n = if r.chance(1, 10) { r.range(120, 300) as usize } else { r.range(0, 12) as usize };
        let names: Vec<String> = (0..n).map(|i| gen_sample_name(&mut r, i)).collect();
        rep.case(&("snames", &names), n > 0);
        // writer side: samples come into being through registration
        let mut c = CollectionV3::new();
        for s in &names {
            c.register_sample_contig(s, "c").unwrap();
        }
        let enc = c.verif_serialize_sample_names();
        let nb: Vec<Vec<u8>> = names.iter().map(|s| s.clone().into_bytes()).collect();
        ask_cmp(ctx, rep, "snames-enc", &format!("snames-enc {}", name_list_tok(&nb)), &format!("ok {}", hex(&enc)), &case);
        // reader side, also on damaged bytes
        let mut data = enc.clone();
        let damaged = r.chance(1, 3) && data.len() > 1;
        if damaged {
            let p = 1 + r.below(data.len() as u64 - 1) as usize;
            match r.below(4) {
                0 => data.truncate(p),
                1 => data[p] = r.range(0x80, 0xff) as u8,
                2 => data[p] = 0,
                _ => data[p] = r.below(256) as u8,
            }
            if n >= 128 {
                data = enc.clone(); // keep the two-byte count intact
            }
        }
        let rr = guarded(|| {
            let mut d = CollectionV3::new();
            d.verif_deserialize_sample_names(&data).map(|_| d.get_samples_list(false))
        });
        let ok_list = match &rr {
            Ok(Ok(l)) => Some(l.clone()),
            _ => None,
        };
        let real = outcome(rr, |l| name_list_tok(&l.iter().map(|s| s.clone().into_bytes()).collect::<Vec<_>>()));
        ask_cmp(ctx, rep, "snames-dec", &format!("snames-dec {}", hex(&data)), &real, &case);
        if data == enc && ok_list.as_ref() != Some(&names) {
            rep.oracle_fail("sample-names-roundtrip", &format!("sample names read back differ: {names:?} vs {ok_list:?}"), case);
        }
    }
}

fn replay_case(ctx: &mut Ctx, rep: &mut Report, case: &Value) {
    if let Some(s) = case["seed"].as_u64() {
        ctx.seed = s;
    }
    let idx = case["index"].as_u64().unwrap_or(0);
    let un = |k: &str| crate::model::unhex(case[k].as_str().unwrap_or("-")).unwrap_or_default();
    match case["kind"].as_str().unwrap_or("") {
        "cv" => cv_case(ctx, rep, case["n"].as_u64().unwrap_or(0) as u32),
        "cvdec" => cvdec_case(ctx, rep, &un("data")),
        "str" => str_case(ctx, rep, &un("data")),
        "zz" => zz_case(
            ctx,
            rep,
            case["x"].as_str().and_then(|s| s.parse().ok()).unwrap_or(0),
            case["p"].as_str().and_then(|s| s.parse().ok()).unwrap_or(0),
        ),
        "names" => names_case(ctx, rep, idx),
        "names-bad" => names_bad_case(ctx, rep, idx),
        "names-utf8" => names_utf8_case(ctx, rep, idx),
        "pinned" => pinned_cases(ctx, rep),
        "details" => det_case(ctx, rep, idx),
        "details-bad" => det_bad_case(ctx, rep, idx),
        "build" => build_case(ctx, rep, idx),
        "catalogue" => cat_case(ctx, rep, idx, true),
        "archive" => archive_case(ctx, rep, idx),
        "snames" => sample_names_cases(ctx, rep),
        k => rep.notes.push(format!("unknown replay kind {k}")),
    }
}

pub fn run(ctx: &mut Ctx) -> Report {
    let mut rep = Report::new(
        "C03",
        "listing after serialise→deserialise on a fresh collection == what was registered (samples in first-seen \
         order, contig names verbatim in push order, every descriptor unchanged); each (de)serialiser byte-equal to its Lean model",
    );
    if let Some(rp) = ctx.replay.clone() {
        let case = rp["case"].clone();
        replay_case(ctx, &mut rep, &case);
        return rep;
    }
    let t0 = std::time::Instant::now();
    let lap = |what: &str| {
        if std::env::var("VERIF_TIMING").is_ok() {
            eprintln!("[C03] {what}: {:.1}s", t0.elapsed().as_secs_f64());
        }
    };
    prim_cases(ctx, &mut rep);
    lap("prim");
    sample_names_cases(ctx, &mut rep);
    lap("snames");
    for i in 0..ctx.t(2500u64, 40000) {
        names_case(ctx, &mut rep, i);
    }
    lap("names");
    pinned_cases(ctx, &mut rep);
    for i in 0..ctx.t(400u64, 6000) {
        names_utf8_case(ctx, &mut rep, i);
    }
    for i in 0..ctx.t(2500u64, 40000) {
        names_bad_case(ctx, &mut rep, i);
    }
    lap("names-bad");
    for i in 0..ctx.t(2500u64, 40000) {
        det_case(ctx, &mut rep, i);
    }
    lap("details");
    for i in 0..ctx.t(1500u64, 20000) {
        det_bad_case(ctx, &mut rep, i);
    }
    lap("details-bad");
    for i in 0..ctx.t(600u64, 8000) {
        build_case(ctx, &mut rep, i);
    }
    lap("build");
    let ncat = ctx.t(150u64, 2000);
    let nmodel = ctx.t(40u64, 300);
    for i in 0..ncat {
        cat_case(ctx, &mut rep, i, i < nmodel);
    }
    lap("catalogue");
    for i in 0..ctx.t(2u64, 12) {
        archive_case(ctx, &mut rep, i);
    }
    lap("archive");
    rep.notes.push(
        "descriptor tables outside the theorem's domain (in-group id >= 2^31-1, segment_size+k > 2^31) are compared with the \
         model (release wrap-around semantics) but not held against the round-trip oracle"
            .into(),
    );
    rep
}
