//! C15 write failures during create are reported, never swallowed — fault enumeration on the real code.
//!
//! (a) `std::io::BufWriter` (the real one) over an in-process sink that accepts bytes up to a limit
//!     (short write, then an error) against `Model/FileIO.lean` `BufWriter` — exhaustive over small
//!     capacities/limits/op sequences, then random. Ties the model's buffering rules to std.
//! (b) `ragc create` (the binary built from the working tree) as a child process with
//!     `RLIMIT_FSIZE = n` and `SIGXFSZ` ignored, so that the first `write(2)` crossing offset `n`
//!     transfers the bytes that fit and the next one fails with `EFBIG`: for every `n` in a stride
//!     over `0..size`, every offset in the last `footer + 8 + 64` bytes, and `n >= size`.
//!     The list of `write_all` calls of `flush_buffers` is reconstructed from the directory of the
//!     complete archive (metadata varint, data, … in file order) and handed to the model
//!     (`fileio-create`, capacity 4 MiB as in archive.rs:103); exit status and the bytes left on
//!     disk are compared with the model's prediction.
//!     Oracle ("write-fault-swallowed"): exit status != 0, or the file is the complete archive and
//!     `ragc listset` lists every sample. A child that dies from a signal or hangs is
//!     "write-fault-abnormal-exit".
use crate::gen::cli::{self, Run};
use crate::gen::genomes::{self, GenOpts, Presentation};
use crate::model::{hex, unhex, Model};
use crate::props::c01;
use crate::report::Report;
use crate::rng::Rng;
use crate::Ctx;
use serde_json::{json, Value};
use std::io::Write;
use std::path::{Path, PathBuf};
use std::sync::{Arc, Mutex};

const CAP: usize = 4 * 1024 * 1024;

// ------------------------------------------------------------------ (a) BufWriter

struct LimitedSink {
    limit: usize,
    data: Arc<Mutex<Vec<u8>>>,
}

impl Write for LimitedSink {
    fn write(&mut self, buf: &[u8]) -> std::io::Result<usize> {
        let mut d = self.data.lock().unwrap();
        if buf.is_empty() {
            return Ok(0);
        }
        let room = self.limit.saturating_sub(d.len());
        if room == 0 {
            return Err(std::io::Error::from_raw_os_error(libc::EFBIG));
        }
        let n = room.min(buf.len());
        d.extend_from_slice(&buf[..n]);
        Ok(n)
    }
    fn flush(&mut self) -> std::io::Result<()> {
        Ok(())
    }
}

#[derive(Clone, Debug)]
enum BwOp {
    W(Vec<u8>),
    F,
}

fn bw_ops_string(ops: &[BwOp], with_drop: bool) -> String {
    let mut v: Vec<String> = ops
        .iter()
        .map(|o| match o {
            BwOp::W(b) => format!("w{}", hex(b)),
            BwOp::F => "f".to_string(),
        })
        .collect();
    if with_drop {
        v.push("d".into());
    }
    if v.is_empty() { "~".into() } else { v.join(",") }
}

/// Run the real BufWriter; canonical reply as the driver prints it.
fn bw_real(cap: usize, limit: usize, ops: &[BwOp], with_drop: bool) -> String {
    let data = Arc::new(Mutex::new(vec![]));
    let mut w = std::io::BufWriter::with_capacity(cap, LimitedSink { limit, data: data.clone() });
    let mut rs = String::new();
    for o in ops {
        let r = match o {
            BwOp::W(b) => w.write_all(b),
            BwOp::F => w.flush(),
        };
        rs.push(if r.is_ok() { 'o' } else { 'e' });
    }
    let buf = if with_drop {
        drop(w);
        vec![]
    } else {
        let b = w.buffer().to_vec();
        // keep the destructor from flushing: forget the writer's buffer by leaking it
        std::mem::forget(w);
        b
    };
    let file = data.lock().unwrap().clone();
    format!("ok {} {} {}", if rs.is_empty() { "-".to_string() } else { rs }, hex(&buf), hex(&file))
}

fn bw_case(model: &mut Option<Model>, rep: &mut Report, cap: usize, limit: usize, ops: &[BwOp], with_drop: bool) {
    let case = json!({"kind": "bufwriter", "cap": cap, "limit": limit, "ops": bw_ops_string(ops, with_drop)});
    let imp = bw_real(cap, limit, ops, with_drop);
    let total: usize = ops.iter().map(|o| if let BwOp::W(b) = o { b.len() } else { 0 }).sum();
    rep.case(&case.to_string(), total > limit);
    rep.count("bufwriter_cases");
    if imp.contains('e') && imp.split(' ').nth(1).map(|r| r.contains('e')).unwrap_or(false) {
        rep.count("branch_bufwriter_error_surfaced");
    }
    if ops.iter().any(|o| matches!(o, BwOp::W(b) if b.len() >= cap)) {
        rep.count("branch_bufwriter_direct_write");
    }
    // oracle on the real BufWriter: the file is a prefix of the bytes handed over, never longer than the limit
    let all: Vec<u8> = ops.iter().flat_map(|o| if let BwOp::W(b) = o { b.clone() } else { vec![] }).collect();
    let file = unhex(imp.rsplit(' ').next().unwrap()).unwrap_or_default();
    if file.len() > limit || !all.starts_with(&file) {
        rep.oracle_fail("bufwriter-not-prefix", &format!("file {:?} is not a prefix (<= {limit}) of the written bytes", file), case.clone());
    }
    if let Some(m) = model.as_mut() {
        let ans = m.ask(&format!("fileio-bufwriter {} {} {}", cap, limit, bw_ops_string(ops, with_drop)));
        if ans != imp {
            rep.disagree("bufwriter", case, &ans, &imp);
        }
    }
}

fn bw_stream(model: &mut Option<Model>, rep: &mut Report, seed: u64, n_random: u64) {
    // exhaustive: capacities 0..=3, limits 0..=5, up to 3 ops from {w0,w1,w2,w3,w4,f}
    let alphabet: Vec<BwOp> = vec![
        BwOp::W(vec![]),
        BwOp::W(vec![1]),
        BwOp::W(vec![2, 3]),
        BwOp::W(vec![4, 5, 6]),
        BwOp::W(vec![7, 8, 9, 10]),
        BwOp::F,
    ];
    for cap in 0..=3usize {
        for limit in 0..=5usize {
            for a in 0..alphabet.len() {
                bw_case(model, rep, cap, limit, &[alphabet[a].clone()], true);
                for b in 0..alphabet.len() {
                    bw_case(model, rep, cap, limit, &[alphabet[a].clone(), alphabet[b].clone()], (a + b) % 2 == 0);
                    for c in 0..alphabet.len() {
                        bw_case(model, rep, cap, limit, &[alphabet[a].clone(), alphabet[b].clone(), alphabet[c].clone()], (a + b + c) % 2 == 1);
                    }
                }
            }
        }
    }
    for i in 0..n_random {
        let mut rng = Rng::new(seed, 151, i);
        let cap = *rng.pick(&[0usize, 1, 2, 4, 7, 8, 16, 33]);
        let n_ops = rng.range(1, 9) as usize;
        let mut ops = vec![];
        let mut total = 0usize;
        for _ in 0..n_ops {
            if rng.chance(1, 5) {
                ops.push(BwOp::F);
            } else {
                let len = match rng.below(6) {
                    0 => 0,
                    1 => cap.saturating_sub(1),
                    2 => cap,
                    3 => cap + 1,
                    _ => rng.below(2 * cap as u64 + 3) as usize,
                };
                total += len;
                ops.push(BwOp::W((0..len).map(|_| rng.below(256) as u8).collect()));
            }
        }
        let limit = match rng.below(4) {
            0 => total + rng.below(3) as usize,
            _ => rng.below(total as u64 + 2) as usize,
        };
        bw_case(model, rep, cap, limit, &ops, rng.chance(1, 2));
    }
}

// ------------------------------------------------------------------ (b) ragc create under RLIMIT_FSIZE

/// Directory of a complete archive: (offset, size) of every part in file order, footer start, footer length.
fn parse_directory(file: &[u8]) -> Option<(Vec<(u64, u64)>, usize, usize)> {
    if file.len() < 8 {
        return None;
    }
    let flen = u64::from_le_bytes(file[file.len() - 8..].try_into().ok()?) as usize;
    if flen + 8 > file.len() {
        return None;
    }
    let fstart = file.len() - 8 - flen;
    let mut cur = std::io::Cursor::new(&file[fstart..file.len() - 8]);
    let rv = |c: &mut std::io::Cursor<&[u8]>| -> Option<u64> { ragc_common::read_varint(c).ok().map(|x| x.0) };
    let n_streams = rv(&mut cur)?;
    let mut parts = vec![];
    for _ in 0..n_streams {
        // NUL-terminated name
        let buf = *cur.get_ref();
        let mut p = cur.position() as usize;
        while p < buf.len() && buf[p] != 0 {
            p += 1;
        }
        if p >= buf.len() {
            return None;
        }
        cur.set_position(p as u64 + 1);
        let n_parts = rv(&mut cur)?;
        let _raw = rv(&mut cur)?;
        for _ in 0..n_parts {
            let off = rv(&mut cur)?;
            let size = rv(&mut cur)?;
            parts.push((off, size));
        }
    }
    if cur.position() as usize != flen {
        return None;
    }
    parts.sort();
    Some((parts, fstart, flen))
}

/// The `write_all` calls of `flush_buffers` (metadata varint then data, per part, in file order).
fn chunks_of(file: &[u8]) -> Option<(Vec<Vec<u8>>, Vec<u8>)> {
    let (parts, fstart, _flen) = parse_directory(file)?;
    let mut chunks = vec![];
    for (i, &(off, size)) in parts.iter().enumerate() {
        let next = parts.get(i + 1).map(|p| p.0).unwrap_or(fstart as u64);
        let total = next.checked_sub(off)?;
        let meta = total.checked_sub(size)?;
        if !(1..=9).contains(&meta) || next as usize > fstart {
            return None;
        }
        let (o, m, s) = (off as usize, meta as usize, size as usize);
        chunks.push(file[o..o + m].to_vec());
        chunks.push(file[o + m..o + m + s].to_vec());
    }
    if parts.first().map(|p| p.0).unwrap_or(fstart as u64) != 0 {
        return None;
    }
    Some((chunks, file[fstart..file.len() - 8].to_vec()))
}

fn hex_list(v: &[Vec<u8>]) -> String {
    if v.is_empty() { "~".into() } else { v.iter().map(|b| hex(b)).collect::<Vec<_>>().join(",") }
}

struct ArchCase {
    idx: u64,
    desc: Value,
    dir: PathBuf,
    inputs: Vec<PathBuf>,
    args: Vec<String>,
    full: Vec<u8>,
    chunks: Vec<Vec<u8>>,
    footer: Vec<u8>,
    samples: Vec<String>,
}

/// Sample sets sized so that the archive has 5..40 kB (random DNA costs about 2 bits per base).
fn gen_arch(seed: u64, idx: u64, big: bool) -> (c01::Case, Vec<String>) {
    let mut rng = Rng::new(seed, 15, idx);
    let single_file = idx % 3 == 2;
    let k = *rng.pick(&[15usize, 21, 31]);
    let (n_samples, n_contigs, lo, hi) = if big {
        (2usize, 3usize, 2_800_000usize, 3_000_000usize)
    } else {
        match idx % 4 {
            0 => (2usize, 2usize, 4000usize, 6000usize),
            1 => (3, 2, 10000, 16000),
            2 => (2, 2, 12000, 20000),
            _ => (6, 4, 3000, 9000),
        }
    };
    let o = GenOpts {
        n_samples,
        n_contigs,
        len_lo: lo,
        len_hi: hi,
        div_per_mille: if big { 300 } else { *rng.pick(&[20u64, 60, 150]) },
        iupac: !big,
        n_runs: !big,
        revcomp: !big,
        structural: false,
        short_contigs: false,
        k,
        pansn: single_file,
        descriptions: false,
    };
    let set = genomes::gen_sample_set(&mut rng, &o);
    let params = crate::gen::archive::Params {
        k,
        segment_size: if big || idx % 4 <= 1 { 60000 } else { *rng.pick(&[1000usize, 2000]) },
        min_match_len: 20,
        pack_size: 50,
        threads: 2,
        queue_capacity: 2 << 30,
        fallback_frac: 0.0,
    };
    let desc = json!({"seed": seed, "index": idx, "big": big, "single_file": single_file, "params": params.to_json(), "gen": format!("{:?}", o)});
    let names = c01::expected(&c01::Case { set: set.clone(), params: params.clone(), single_file, desc: desc.clone() }).into_iter().map(|e| e.0).collect();
    (c01::Case { set, params, single_file, desc }, names)
}

fn create_args(case: &c01::Case, inputs: &[PathBuf], out: &Path) -> Vec<String> {
    let p = &case.params;
    let mut a: Vec<String> = vec![
        "create".into(),
        "-o".into(),
        out.to_string_lossy().to_string(),
        "-v".into(),
        "0".into(),
        "-t".into(),
        p.threads.to_string(),
        "-k".into(),
        p.k.to_string(),
        "-s".into(),
        p.segment_size.to_string(),
        "-m".into(),
        p.min_match_len.to_string(),
    ];
    a.extend(inputs.iter().map(|p| p.to_string_lossy().to_string()));
    a
}

fn prepare(bin: &Path, workdir: &str, seed: u64, idx: u64, big: bool, rep: &mut Report) -> Option<ArchCase> {
    let (case, samples) = gen_arch(seed, idx, big);
    let dir = PathBuf::from(workdir).join(format!("c15_{idx}{}", if big { "b" } else { "" }));
    let _ = std::fs::remove_dir_all(&dir);
    let mut prng = Rng::new(seed, 115, idx);
    let inputs = c01::write_inputs(&dir, &case, &mut prng, &Presentation::plain());
    let out0 = dir.join("base0.agc");
    let out1 = dir.join("base1.agc");
    let a0 = create_args(&case, &inputs, &out0);
    let a1 = create_args(&case, &inputs, &out1);
    let r0 = Run { args: a0.clone(), capture_stderr: true, ..Run::new(bin, &[]) }.timeout_s(600).run();
    let r1 = Run { args: a1, capture_stderr: false, ..Run::new(bin, &[]) }.timeout_s(600).run();
    rep.add("time_ms_baseline_create", r0.ms);
    if r0.class() != "0" || r1.class() != "0" {
        rep.oracle_fail(
            "baseline-create-failed",
            &format!("create without any limit exits {} / {}: {}", r0.class(), r1.class(), crate::report::clip(&r0.stderr_text())),
            case.desc.clone(),
        );
        return None;
    }
    let full = std::fs::read(&out0).ok()?;
    let again = std::fs::read(&out1).ok()?;
    if full != again {
        rep.count("baseline_not_deterministic");
        rep.notes.push(format!("archive {idx}: two unlimited runs gave different bytes ({} vs {}); byte comparison of prefixes skipped for it (C04 territory)", full.len(), again.len()));
        return None;
    }
    let (chunks, footer) = match chunks_of(&full) {
        Some(x) => x,
        None => {
            rep.oracle_fail("baseline-directory-unreadable", "the directory of the complete archive cannot be parsed into parts", case.desc.clone());
            return None;
        }
    };
    let mut rebuilt: Vec<u8> = chunks.concat();
    rebuilt.extend_from_slice(&footer);
    rebuilt.extend_from_slice(&(footer.len() as u64).to_le_bytes());
    if rebuilt != full {
        rep.oracle_fail("baseline-directory-unreadable", "chunks + footer + length do not reproduce the archive", case.desc.clone());
        return None;
    }
    rep.count("archives_prepared");
    rep.add("archive_bytes_total", full.len() as u64);
    rep.add("archive_chunks_total", chunks.len() as u64);
    let _ = std::fs::remove_file(&out1);
    let args = create_args(&case, &inputs, Path::new("@OUT@"));
    Some(ArchCase { idx, desc: case.desc.clone(), dir, inputs, args, full, chunks, footer, samples })
}

/// One faulted run. `limit = None` = no RLIMIT at all.
fn fault_run(bin: &Path, model: &mut Option<Model>, rep: &mut Report, ac: &ArchCase, limit: Option<u64>, tag: &str) {
    let size = ac.full.len() as u64;
    let out = ac.dir.join(format!("f_{tag}.agc"));
    let _ = std::fs::remove_file(&out);
    let args: Vec<String> = ac.args.iter().map(|a| if a == "@OUT@" { out.to_string_lossy().to_string() } else { a.clone() }).collect();
    let mut run = Run { args, capture_stderr: false, ..Run::new(bin, &[]) }.timeout_s(if size > 1_000_000 { 900 } else { 120 });
    run.fsize_limit = limit;
    let o = run.run();
    let left = cli::read_opt(&out);
    let case = json!({"kind": "create-fault", "archive": ac.idx, "desc": ac.desc, "limit": limit, "size": size});
    let lim = limit.unwrap_or(u64::MAX);
    rep.case(&format!("{}|{:?}", ac.idx, limit), lim < size);
    rep.add("time_ms_children", o.ms);
    let fstart = size - 8 - ac.footer.len() as u64;
    rep.count(if lim == 0 {
        "branch_limit_0"
    } else if lim < fstart {
        "branch_limit_inside_parts"
    } else if lim < size - 8 {
        "branch_limit_inside_footer"
    } else if lim < size {
        "branch_limit_inside_length_field"
    } else if lim == size {
        "branch_limit_eq_size"
    } else {
        "branch_limit_above_size"
    });
    // is the limit exactly at a chunk boundary?
    if lim < fstart {
        let mut pos = 0u64;
        for c in &ac.chunks {
            pos += c.len() as u64;
            if pos == lim {
                rep.count("branch_limit_at_chunk_boundary");
                break;
            }
        }
    }
    if o.timed_out || o.code.is_none() {
        rep.oracle_fail("write-fault-abnormal-exit", &format!("create under RLIMIT_FSIZE={:?} ended with {}", limit, o.class()), case.clone());
    }
    let complete = left.as_deref() == Some(&ac.full[..]);
    // ---- oracle: never success with an incomplete file
    if o.code == Some(0) {
        rep.count("exit_0");
        let mut bad = None;
        if !complete {
            bad = Some(format!(
                "exit status 0 but the file left behind has {} bytes and is not the complete archive ({} bytes)",
                left.as_ref().map(|l| l.len() as i64).unwrap_or(-1),
                size
            ));
        } else {
            let l = Run::new(bin, &["listset"]).path_arg(&out).timeout_s(60).run();
            let listed: Vec<String> = String::from_utf8_lossy(&l.stdout).lines().map(|s| s.to_string()).collect();
            if l.class() != "0" || ac.samples.iter().any(|s| !listed.contains(s)) {
                bad = Some(format!("exit status 0 but listset exits {} and lists {:?} (expected {:?})", l.class(), listed, ac.samples));
            }
        }
        if let Some(msg) = bad {
            rep.oracle_fail("write-fault-swallowed", &msg, case.clone());
        }
    } else {
        rep.count("exit_nonzero");
        if let Some(l) = &left {
            if ac.full.starts_with(l) && (l.len() as u64) < size {
                rep.count("left_strict_prefix");
            }
            if l.len() as u64 == lim {
                rep.count("left_exactly_limit_bytes");
            }
        }
        // what C14 then guarantees: the truncated file does not open (sampled, it costs a process)
        if lim % 7 == 0 || lim + 80 >= size {
            let l = Run::new(bin, &["listset"]).path_arg(&out).timeout_s(60).run();
            rep.count(if l.class() == "0" { "truncated_file_opens" } else { "truncated_file_rejected_by_open" });
            if l.class() == "0" && !complete {
                rep.notes.push(format!("archive {} limit {:?}: create failed, yet listset opens the {}-byte file", ac.idx, limit, left.as_ref().map(|l| l.len()).unwrap_or(0)));
            }
        }
    }
    // ---- correspondence
    if let (Some(m), true) = (model.as_mut(), size > 1_000_000) {
        // large archive: the model runs on chunk lengths only and predicts the file length
        let lens: Vec<usize> = ac.chunks.iter().map(|c| c.len()).collect();
        let ans = m.ask(&format!("fileio-create-len {} {} {} {}", CAP, lim, crate::model::nat_list(&lens), ac.footer.len()));
        let is_prefix = left.as_ref().map(|l| ac.full.starts_with(l)).unwrap_or(false);
        let imp = format!(
            "{} {}{}",
            match o.code {
                Some(0) => "ok".to_string(),
                Some(1) => "err".to_string(),
                _ => o.class(),
            },
            left.as_ref().map(|l| l.len().to_string()).unwrap_or_else(|| "~".into()),
            if is_prefix { "" } else { " not-a-prefix" }
        );
        let mut it = ans.split(' ');
        let (mr, md, mf) = (it.next().unwrap_or(""), it.next().unwrap_or(""), it.next().unwrap_or(""));
        let model_view = format!("{} {}", mr, mf);
        if model_view != imp {
            rep.disagree("create-fault-len", case.clone(), &model_view, &imp);
        }
        rep.count(&format!("model_drop_outcome_{md}"));
    } else if let Some(m) = model.as_mut() {
        let ans = m.ask(&format!(
            "fileio-create {} {} {} {} {}",
            CAP,
            lim,
            hex_list(&ac.chunks),
            hex(&ac.footer),
            hex(&ac.footer)
        ));
        let imp = format!(
            "{} {}",
            match o.code {
                Some(0) => "ok".to_string(),
                Some(1) => "err".to_string(),
                _ => o.class(),
            },
            left.as_ref().map(|l| hex(l)).unwrap_or_else(|| "~".into())
        );
        // model reply: "<ok|err> <drop outcome> <file>"
        let mut it = ans.split(' ');
        let (mr, md, mf) = (it.next().unwrap_or(""), it.next().unwrap_or(""), it.next().unwrap_or(""));
        let model_view = format!("{} {}", mr, mf);
        if model_view != imp {
            rep.disagree("create-fault", case.clone(), &model_view, &imp);
        }
        rep.count(&format!("model_drop_outcome_{md}"));
    }
    if rep.samples.len() < 5 && (lim == fstart + 1 || lim == size - 3 || lim == size || lim == 1) {
        rep.sample(json!({"archive": ac.idx, "size": size, "footer": ac.footer.len(), "chunks": ac.chunks.len(), "limit": limit,
            "exit": o.class(), "left_bytes": left.as_ref().map(|l| l.len())}));
    }
    let _ = std::fs::remove_file(&out);
}

/// `footer_step`: 1 = every offset inside the footer; s > 1 = every s-th (the 8-byte length at the
/// end and the 24 bytes in front of the footer are always enumerated completely).
fn limits_for(ac: &ArchCase, n_stride: u64, exhaustive_below: u64, footer_step: u64) -> Vec<Option<u64>> {
    let size = ac.full.len() as u64;
    let tail = ac.footer.len() as u64 + 8 + 64;
    let mut v: Vec<u64> = vec![];
    if size <= exhaustive_below {
        v.extend(0..size);
    } else {
        let step = (size / n_stride).max(1);
        let mut n = 0;
        while n < size {
            v.push(n);
            n += step;
        }
        if footer_step <= 1 {
            v.extend(size.saturating_sub(tail)..size);
        } else {
            let fstart = size - 8 - ac.footer.len() as u64;
            v.extend(fstart.saturating_sub(24)..fstart + 2);
            v.extend((fstart..size - 8).step_by(footer_step as usize));
            v.extend(size - 10..size);
        }
        // chunk boundaries (the model distinguishes them from interior offsets)
        let mut pos = 0u64;
        for (i, c) in ac.chunks.iter().enumerate() {
            pos += c.len() as u64;
            if i % 5 == 0 && pos < size {
                v.push(pos);
                v.push(pos.saturating_sub(1));
            }
        }
        v.extend([0, 1, 2, 7, 8, 9]);
    }
    v.extend([size, size + 1, size + 4096, size * 2]);
    v.sort();
    v.dedup();
    let mut out: Vec<Option<u64>> = v.into_iter().map(Some).collect();
    out.push(None);
    out
}

pub fn run(ctx: &mut Ctx) -> Report {
    let mut rep = Report::new(
        "C15",
        "(a) real std BufWriter over a sink failing at offset `limit`: all sequences of <= 3 ops from {write_all of 0..4 bytes, flush} x capacity 0..3 x limit 0..5, \
         then random sequences (capacity 0..33, writes around the capacity, limit around the total); \
         (b) `ragc create` child processes under RLIMIT_FSIZE=n (SIGXFSZ ignored): archives of 5-40 kB from the structured generator (multi-file and single-file), \
         n over a stride of 0..size, every offset of the last footer+8+64 bytes, sampled part boundaries, n = size, size+1, size+4096, 2*size and no limit \
         (thorough: more archives, an archive < 1.5 kB exhaustively, one archive > 4 MiB around the BufWriter capacity); \
         a case is one (archive, n) or one BufWriter op sequence; non-trivial when the fault offset lies below the number of bytes to write",
    );
    let seed = ctx.seed;
    let workdir = ctx.workdir.clone();
    let bin = cli::ragc_path();

    if let Some(r) = ctx.replay.clone() {
        let c = &r["case"];
        let mut m = ctx.spawn_model();
        if c["kind"] == "bufwriter" {
            // ops string back to ops
            let ops_s = c["ops"].as_str().unwrap_or("~").to_string();
            let mut ops = vec![];
            let mut with_drop = false;
            for t in ops_s.split(',') {
                match t {
                    "~" => {}
                    "f" => ops.push(BwOp::F),
                    "d" => with_drop = true,
                    w => ops.push(BwOp::W(unhex(&w[1..]).unwrap_or_default())),
                }
            }
            bw_case(&mut m, &mut rep, c["cap"].as_u64().unwrap_or(0) as usize, c["limit"].as_u64().unwrap_or(0) as usize, &ops, with_drop);
        } else if let Some(bin) = &bin {
            let idx = c["archive"].as_u64().unwrap_or(0);
            let big = c["desc"]["big"].as_bool().unwrap_or(false);
            let sd = c["desc"]["seed"].as_u64().unwrap_or(seed);
            if let Some(ac) = prepare(bin, &workdir, sd, idx, big, &mut rep) {
                fault_run(bin, &mut m, &mut rep, &ac, c["limit"].as_u64(), "replay");
            }
        }
        return rep;
    }

    // (a)
    {
        let mut m = ctx.spawn_model();
        let t0 = std::time::Instant::now();
        bw_stream(&mut m, &mut rep, seed, ctx.t(3000, 30000));
        rep.add("time_ms_bufwriter_stream", t0.elapsed().as_millis() as u64);
        if let Some(m) = &m {
            rep.model_requests += m.requests;
        }
    }

    // (b)
    let bin = match bin {
        Some(b) => b,
        None => {
            rep.notes.push("VERIF_RAGC not set: the fault enumeration on the real binary did not run".into());
            rep.count("cli_binary_missing");
            return rep;
        }
    };
    let n_arch = ctx.t(2u64, 5u64);
    let n_stride = ctx.t(20u64, 120u64);
    let exhaustive_below = ctx.t(0u64, 1500u64);
    let mut archs = vec![];
    for idx in 0..n_arch {
        if let Some(ac) = prepare(&bin, &workdir, seed, idx, false, &mut rep) {
            archs.push(ac);
        }
    }
    if ctx.tier == crate::Tier::Thorough {
        if let Some(ac) = prepare(&bin, &workdir, seed, 100, true, &mut rep) {
            archs.push(ac);
        }
    }
    let mut jobs: Vec<(usize, Option<u64>)> = vec![];
    for (ai, ac) in archs.iter().enumerate() {
        let size = ac.full.len() as u64;
        if size > 1_000_000 {
            // big archive: offsets around the BufWriter capacity and the usual end points
            let cap = CAP as u64;
            let mut v: Vec<u64> = vec![0, 1, cap - 1, cap, cap + 1, cap / 2, size / 2, size - 9, size - 8, size - 1, size, size + 1];
            let fstart = size - 8 - ac.footer.len() as u64;
            v.extend([fstart - 1, fstart, fstart + 1, fstart + ac.footer.len() as u64 / 2]);
            // boundaries of the first chunk that crosses the capacity
            let mut pos = 0u64;
            for c in &ac.chunks {
                let next = pos + c.len() as u64;
                if pos <= cap && cap < next {
                    v.extend([pos, pos + 1, next.saturating_sub(1), next]);
                }
                pos = next;
            }
            v.retain(|&x| x <= size * 2);
            v.sort();
            v.dedup();
            jobs.extend(v.into_iter().map(|n| (ai, Some(n))));
            rep.count("big_archive_above_bufwriter_capacity");
        } else {
            // quick tier: every footer offset for the first archive only (each child costs seconds)
            let footer_step = if ctx.tier == crate::Tier::Quick { if ai == 0 { 2 } else { 9 } } else { 1 };
            jobs.extend(limits_for(ac, n_stride, exhaustive_below, footer_step).into_iter().map(|l| (ai, l)));
        }
    }
    rep.add("fault_runs_planned", jobs.len() as u64);
    let n_jobs = jobs.len() as u64;
    let archs_ref = &archs;
    let jobs_ref = &jobs;
    let bin_ref = &bin;
    crate::props::par_cases(ctx, &mut rep, n_jobs, 10, |m, r, i| {
        let (ai, limit) = jobs_ref[i as usize];
        fault_run(bin_ref, m, r, &archs_ref[ai], limit, &format!("{i}"));
    });
    for ac in &archs {
        rep.sample(json!({"archive": ac.idx, "bytes": ac.full.len(), "footer_bytes": ac.footer.len(), "write_all_calls": ac.chunks.len() + 2,
            "samples": ac.samples, "inputs": ac.inputs.len()}));
        let _ = std::fs::remove_dir_all(&ac.dir);
    }
    rep
}
