//! C04 archive bytes depend only on inputs and parameters: the same input is built repeatedly with
//! different worker-thread counts, queue capacities and (when the yield hook is installed) perturbed
//! schedules; the sha256 of the output must be identical. The pipeline protocol model is replayed
//! against the event log of each run (see c05.rs for the trace part).
use crate::gen::archive::{self, Params};
use crate::gen::genomes::{self, GenOpts, Presentation};
use crate::props::c01::{self, Case};
use crate::props::guarded;
use crate::report::Report;
use crate::rng::Rng;
use crate::Ctx;
use serde_json::json;
use sha2::{Digest, Sha256};
use std::path::PathBuf;

pub fn sha(path: &std::path::Path) -> String {
    let b = std::fs::read(path).unwrap_or_default();
    let mut h = Sha256::new();
    h.update(&b);
    format!("{:x}", h.finalize())
}

/// C04 case space: multi-file, and single-file with enough contigs for several sync rounds.
pub fn gen_case(seed: u64, idx: u64) -> Case {
    let mut rng = Rng::new(seed, 4, idx);
    let single_file = idx % 2 == 0;
    let k = *rng.pick(&[11usize, 15, 21, 31]);
    let n_samples = if single_file { rng.range(2, 4) } else { rng.range(2, 6) } as usize;
    let n_contigs = if single_file { rng.range(18, 30) } else { rng.range(1, 6) } as usize;
    let o = GenOpts {
        n_samples,
        n_contigs,
        len_lo: 150,
        len_hi: *rng.pick(&[300usize, 500, 900]),
        div_per_mille: *rng.pick(&[5u64, 20, 50]),
        iupac: rng.chance(1, 3),
        n_runs: rng.chance(1, 3),
        revcomp: rng.chance(1, 2),
        structural: rng.chance(1, 2),
        short_contigs: rng.chance(1, 3),
        k,
        pansn: single_file,
        descriptions: false,
    };
    let set = genomes::gen_sample_set(&mut rng, &o);
    let params = Params {
        k,
        segment_size: *rng.pick(&[80usize, 200, 500]),
        min_match_len: 20,
        pack_size: 50,
        threads: 1,
        queue_capacity: 2 << 30,
        fallback_frac: *rng.pick(&[0.0f64, 0.0, 0.1]),
    };
    let contigs: usize = set.samples.iter().map(|s| s.contigs.len()).sum();
    let desc = json!({"seed": seed, "index": idx, "single_file": single_file, "contigs": contigs, "params": params.to_json()});
    Case { set, params, single_file, desc }
}

/// One input with a block of more than 1 MiB (a satellite array that ends up as one plain
/// reference part) followed by contigs with long tandem duplications: the bytes written for the
/// later parts must not depend on which worker thread compressed the big block before them
/// (thread-local ZSTD contexts, work stealing).
pub fn gen_large_block_case(seed: u64) -> Case {
    let mut rng = Rng::new(seed, 404, 0);
    let unit: Vec<u8> = genomes::random_seq(&mut rng, 171);
    let mut sat: Vec<u8> = Vec::with_capacity(1_150_000);
    // exact copies: no k-mer of the array is a singleton, so no splitter falls inside it and the
    // whole array stays ONE segment (> 1 MiB)
    while sat.len() < 1_150_000 {
        sat.extend_from_slice(&unit);
    }
    let mut s1 = vec![("A#1#sat".to_string(), sat)];
    let mut s2 = vec![];
    for i in 0..16 {
        // unique flank + three times (6 diverged tandem copies of a 1.6 / 2 / 2.4 kb unit + unique)
        let mut v = genomes::random_seq(&mut rng, 3000);
        for unit_len in [1600usize, 2000, 2400] {
            let unit = genomes::random_seq(&mut rng, unit_len);
            for _ in 0..6 {
                let mut c = unit.clone();
                for _ in 0..4 {
                    let p = rng.below(unit_len as u64) as usize;
                    c[p] = b"ACGT"[rng.below(4) as usize];
                }
                v.extend_from_slice(&c);
            }
            v.extend(genomes::random_seq(&mut rng, 3000));
        }
        s1.push((format!("A#1#c{i}"), v.clone()));
        let mut w = v;
        for _ in 0..5 {
            let p = rng.below(w.len() as u64) as usize;
            w[p] = b"ACGT"[rng.below(4) as usize];
        }
        s2.push((format!("B#1#c{i}"), w));
    }
    let set = genomes::SampleSet { samples: vec![genomes::Sample { name: "A#1".into(), contigs: s1 }, genomes::Sample { name: "B#1".into(), contigs: s2 }] };
    // pack_size 5: the big contig is compressed in an EARLY round, the later rounds then run on
    // worker threads of which one has the big block in its thread-local compression context
    let params = Params { k: 21, segment_size: 2000, min_match_len: 20, pack_size: 5, threads: 1, queue_capacity: 2 << 30, fallback_frac: 0.0 };
    let desc = json!({"seed": seed, "index": "large-block", "single_file": true, "contigs": 49, "params": params.to_json()});
    Case { set, params, single_file: true, desc }
}

pub fn run_case(workdir: &str, seed: u64, rep: &mut Report, case: &Case, tag: &str, builds: usize) {
    let dir = PathBuf::from(workdir).join(format!("c04_{tag}"));
    let _ = std::fs::remove_dir_all(&dir);
    let mut prng = Rng::new(seed, 104, 0);
    let inputs = c01::write_inputs(&dir, case, &mut prng, &Presentation::plain());
    let contigs: usize = case.set.samples.iter().map(|s| s.contigs.len()).sum();
    rep.case(&case.desc.to_string(), contigs >= 2);
    rep.count(if case.single_file { "mode_single_file" } else { "mode_multi_file" });
    if case.single_file && contigs >= case.params.pack_size {
        rep.count("branch_single_file_with_sync_rounds");
    }
    let mut shas: Vec<(String, usize, usize)> = vec![];
    let mut rng = Rng::new(seed, 204, case.desc["index"].as_u64().unwrap_or(0));
    for b in 0..builds {
        let mut p = case.params.clone();
        p.threads = if b == 0 { 1 } else { *rng.pick(&[1usize, 2, 3, 4, 8, 16]) };
        // capacity: large, or just above the largest contig (forces back-pressure)
        let maxlen = case.set.samples.iter().flat_map(|s| s.contigs.iter().map(|c| c.1.len())).max().unwrap_or(1);
        p.queue_capacity = if b % 3 == 2 { maxlen + 1 + rng.below(maxlen as u64 + 1) as usize } else { 2 << 30 };
        let out = dir.join(format!("out{b}.agc"));
        rep.count("builds");
        match guarded(|| archive::create_archive(&inputs, &out, &p)) {
            Err(pn) => {
                rep.oracle_fail("create-panic", &format!("create panicked (threads={}): {pn}", p.threads), case.desc.clone());
                break;
            }
            Ok(Err(e)) => {
                rep.oracle_fail("create-error", &format!("create failed (threads={}): {e}", p.threads), case.desc.clone());
                break;
            }
            Ok(Ok(())) => shas.push((sha(&out), p.threads, p.queue_capacity)),
        }
        let _ = std::fs::remove_file(&out);
    }
    let distinct: std::collections::BTreeSet<&String> = shas.iter().map(|s| &s.0).collect();
    if distinct.len() > 1 {
        let sig = if case.single_file { "bytes-differ-single-file" } else { "bytes-differ-multi-file" };
        rep.oracle_fail(sig, &format!("{} distinct archives in {} builds: {:?}", distinct.len(), shas.len(),
            shas.iter().map(|s| (&s.0[..8], s.1, s.2)).collect::<Vec<_>>()), case.desc.clone());
    }
    if rep.samples.len() < 3 && !shas.is_empty() {
        rep.sample(json!({"case": case.desc, "builds": shas.len(), "sha256": shas[0].0, "threads": shas.iter().map(|s| s.1).collect::<Vec<_>>()}));
    }
    let _ = std::fs::remove_dir_all(&dir);
}

/// Trace-validated builds of one case, strictly sequential (the event log and the yield function
/// are process-global, so nothing else may drive a pipeline meanwhile): a plain reference build,
/// then `builds` logged builds with other thread counts / capacities / perturbed schedules; each
/// log goes through `c05::validate_trace` (producer program = model program, trace inclusion, batch
/// composition = partition of the pushes at the token rounds) and each archive must have the
/// reference sha256. Returns false when a run hung (stop: the global state is polluted).
pub fn traced_builds(ctx: &mut Ctx, rep: &mut Report, case: &Case, tag: &str, builds: usize) -> bool {
    use crate::props::c05::{self, Perturb};
    let dir = PathBuf::from(&ctx.workdir).join(format!("c04t_{tag}"));
    let _ = std::fs::remove_dir_all(&dir);
    let mut prng = Rng::new(ctx.seed, 104, 0);
    let inputs = c01::write_inputs(&dir, case, &mut prng, &Presentation::plain());
    let sizes: Vec<Vec<usize>> =
        case.set.samples.iter().map(|s| s.contigs.iter().map(|c| genomes::normalise_letters(&c.1).len()).collect()).collect();
    let maxlen = sizes.iter().flatten().cloned().max().unwrap_or(1).max(1);
    let idx = case.desc["index"].as_u64().unwrap_or(0);
    let mut rng = Rng::new(ctx.seed, 304, idx);
    let ref_out = dir.join("ref.agc");
    let reference = match guarded(|| archive::create_archive(&inputs, &ref_out, &case.params)) {
        Ok(Ok(())) => sha(&ref_out),
        other => {
            rep.oracle_fail("create-error", &format!("reference build failed: {:?}", other), case.desc.clone());
            let _ = std::fs::remove_dir_all(&dir);
            return true;
        }
    };
    let mut ok = true;
    for b in 0..builds {
        let mut p = case.params.clone();
        p.threads = *rng.pick(&[2usize, 3, 4, 8, 16]);
        p.queue_capacity = if b % 2 == 0 { maxlen + rng.below(maxlen as u64 + 1) as usize } else { 2 << 30 };
        let pt = Perturb { mode: 1 + (b as u32 + idx as u32) % 4, per_mille: 500, seed: rng.next() };
        let out = dir.join(format!("t{b}.agc"));
        let run = c05::run_logged(&inputs, &out, &p, &[], &pt, std::time::Duration::from_secs(180));
        rep.count("traced_builds");
        let info = json!({"threads": p.threads, "queue_capacity": p.queue_capacity, "perturb": pt.to_json()});
        if !run.finished {
            rep.oracle_fail("pipeline-hang", &format!("traced build {info} did not return within 60 s; last events: {}", c05::tail(&run.events, 30)), case.desc.clone());
            ok = false;
            break;
        }
        if let Some(Err(e)) = &run.create_result {
            rep.oracle_fail("create-error", &format!("traced build {info} failed: {e}"), case.desc.clone());
            ok = !e.starts_with("panic: ");
            break;
        }
        let s = c05::validate_trace(&mut ctx.model, rep, &run, case.single_file, &sizes, &p, &[], 0, &case.desc);
        if s.clean {
            rep.count("trace_validated_runs");
        }
        rep.count(&format!("traced_rounds_{}", s.rounds));
        if s.push_waits > 0 {
            rep.count("traced_branch_push_waited");
        }
        if s.pull_waits > 0 {
            rep.count("traced_branch_pull_waited");
        }
        let h = sha(&out);
        if h != reference {
            let sig = if case.single_file { "bytes-differ-single-file" } else { "bytes-differ-multi-file" };
            rep.oracle_fail(sig, &format!("traced build {info} gave sha256 {}.. but the 1-thread reference build gave {}..", &h[..8], &reference[..8]), case.desc.clone());
        } else {
            rep.count("traced_builds_byte_identical");
        }
        let _ = std::fs::remove_file(&out);
    }
    let _ = std::fs::remove_dir_all(&dir);
    ok
}

pub fn run(ctx: &mut Ctx) -> Report {
    let mut rep = Report::new(
        "C04",
        "each case (multi-file / single-file with >= pack-cardinality contigs) is built several times with thread counts \
         1..16 and queue capacities from just above one contig to unbounded; the first few cases are additionally built with the event \
         log on under perturbed schedules, validated against the pipeline model (c05::validate_trace) and compared byte for byte with a \
         1-thread reference; non-trivial when >= 2 contigs; distinct by generator description",
    );
    if let Some(r) = ctx.replay.clone() {
        let c = &r["case"];
        if c["index"] == "large-block" {
            let case = gen_large_block_case(c["seed"].as_u64().unwrap_or(1));
            run_case(&ctx.workdir, ctx.seed, &mut rep, &case, "replay", 8);
            return rep;
        }
        let case = gen_case(c["seed"].as_u64().unwrap_or(1), c["index"].as_u64().unwrap_or(0));
        if traced_builds(ctx, &mut rep, &case, "replay", 4) {
            run_case(&ctx.workdir, ctx.seed, &mut rep, &case, "replay", 8);
        }
        return rep;
    }
    let n = ctx.t(10, 60);
    let builds = ctx.t(4, 8);
    // first, sequentially: logged + trace-validated builds of the first few cases
    let traced_cases = ctx.t(6, 30).min(n);
    let traced = ctx.t(2, 3);
    for i in 0..traced_cases {
        let case = gen_case(ctx.seed, i);
        if !traced_builds(ctx, &mut rep, &case, &format!("{i}"), traced) {
            rep.notes.push(format!("stopped at traced case {i}: a logged run hung or panicked"));
            return rep;
        }
    }
    let (seed, workdir) = (ctx.seed, ctx.workdir.clone());
    {
        // large-block case: builds with 1, 2, 4 (and more) threads, several times each
        let case = gen_large_block_case(seed);
        let t0 = std::time::Instant::now();
        run_case(&workdir, seed, &mut rep, &case, "large", ctx.t(5, 10));
        rep.add("large_block_case_ms", t0.elapsed().as_millis() as u64);
        rep.count("branch_block_over_1mib");
    }
    crate::props::par_cases(ctx, &mut rep, n, 5, |_m, r, i| {
        let case = gen_case(seed, i);
        run_case(&workdir, seed, r, &case, &format!("{i}"), builds);
    });
    rep
}
