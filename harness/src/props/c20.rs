//! C20 canonical k-mer arithmetic: kmer.rs / kmer_extract.rs vs Model/Kmer.lean, plus the laws
//! themselves evaluated on the real code against an independent from-scratch packing.
use crate::model::{hex, nat_list};
use crate::props::guarded;
use crate::report::Report;
use crate::rng::Rng;
use crate::Ctx;
use ragc_core::kmer::{canonical_kmer, reverse_complement_kmer, Kmer, KmerMode};
use ragc_core::kmer_extract::enumerate_kmers;
use serde_json::json;

/// from-scratch packing of a window: base i at bits 63-2i..62-2i
fn pack(w: &[u8]) -> u64 {
    let mut v: u128 = 0;
    for (i, &b) in w.iter().enumerate() {
        v |= (b as u128) << (62 - 2 * i);
    }
    v as u64
}
fn rc_window(w: &[u8]) -> Vec<u8> {
    w.iter().rev().map(|&b| 3 - b).collect()
}

struct Obs {
    dir: u64,
    rc: u64,
    cur: u32,
    data: u64,
    isdir: bool,
}

fn feed_real(k: usize, seq: &[u8]) -> Obs {
    let mut km = Kmer::new(k as u32, KmerMode::Canonical);
    for &b in seq {
        if b > 3 {
            km.reset();
        } else {
            km.insert(b as u64);
        }
    }
    Obs { dir: km.data_dir(), rc: km.data_rc(), cur: km.get_cur_size(), data: km.data(), isdir: km.is_dir_oriented() }
}

/// The property, on the real code: sliding == scratch at every position, canonical = min,
/// direction flag, strand symmetry, rc∘rc = id, enumerate_kmers = list of canonical windows.
fn oracle(k: usize, seq: &[u8]) -> Result<(), String> {
    let mut km = Kmer::new(k as u32, KmerMode::Canonical);
    let mut run = 0usize; // length of the current ACGT run
    let mut expect_enum = vec![];
    for (i, &b) in seq.iter().enumerate() {
        if b > 3 {
            km.reset();
            run = 0;
            if km.get_cur_size() != 0 || km.is_full() && k > 0 {
                return Err(format!("reset at {i} did not restart the window"));
            }
            continue;
        }
        km.insert(b as u64);
        run += 1;
        if run >= k {
            let w = &seq[i + 1 - k..=i];
            let d = pack(w);
            let r = pack(&rc_window(w));
            if !km.is_full() {
                return Err(format!("window not full at {i}"));
            }
            if km.data_dir() != d {
                return Err(format!("sliding dir {} != scratch {} at {i}", km.data_dir(), d));
            }
            if km.data_rc() != r {
                return Err(format!("sliding rc {} != scratch {} at {i}", km.data_rc(), r));
            }
            if km.data() != d.min(r) {
                return Err(format!("canonical {} != min({d},{r}) at {i}", km.data()));
            }
            if km.is_dir_oriented() != (d <= r) {
                return Err(format!("direction flag wrong at {i}"));
            }
            // strand symmetry: the canonical value of the reverse-complemented window
            let o = feed_real(k, &rc_window(w));
            if o.data != km.data() {
                return Err(format!("canonical(rc w) {} != canonical(w) {} at {i}", o.data, km.data()));
            }
            if canonical_kmer(d, k as u32) != d.min(r) {
                return Err(format!("canonical_kmer({d}) = {} != {}", canonical_kmer(d, k as u32), d.min(r)));
            }
            let r1 = reverse_complement_kmer(d, k as u32);
            if r1 != r {
                return Err(format!("reverse_complement_kmer({d}) = {r1} != {r}"));
            }
            if reverse_complement_kmer(r1, k as u32) != d {
                return Err(format!("rc(rc({d})) != id"));
            }
            expect_enum.push(d.min(r));
        } else if km.is_full() {
            return Err(format!("window full after only {run} symbols at {i}"));
        }
    }
    let got = enumerate_kmers(&seq.to_vec(), k);
    let expect = if seq.len() < k { vec![] } else { expect_enum };
    if got != expect {
        return Err(format!("enumerate_kmers = {:?}.. != expected {:?}..", &got[..got.len().min(4)], &expect[..expect.len().min(4)]));
    }
    Ok(())
}

fn one_case(ctx: &mut Ctx, rep: &mut Report, k: usize, seq: &[u8], origin: &str) {
    let has_reset = seq.iter().any(|&b| b > 3);
    let full = seq.len() >= k;
    rep.case(&(k, seq), full);
    if has_reset {
        rep.count("branch_reset");
    }
    if k == 32 {
        rep.count("branch_k32");
    }
    if seq.len() > k {
        rep.count("branch_slide_past_k");
    }
    let case = json!({"k": k, "seq": hex(seq), "origin": origin});
    // direct oracle
    match guarded(|| oracle(k, seq)) {
        Ok(Ok(())) => {}
        Ok(Err(msg)) => rep.oracle_fail("kmer-law", &msg, case.clone()),
        Err(p) => rep.oracle_fail("kmer-panic", &p, case.clone()),
    }
    // correspondence
    let real = guarded(|| {
        let o = feed_real(k, seq);
        format!("ok {} {} {} {} {}", o.dir, o.rc, o.cur, o.data, o.isdir)
    })
    .unwrap_or_else(|p| format!("panic {p}"));
    if let Some(m) = ctx.ask(&format!("kmer-feed {} {}", k, hex(seq))) {
        if m != real {
            rep.disagree("kmer-feed", case.clone(), &m, &real);
        }
    }
    let real_enum = guarded(|| {
        let v = enumerate_kmers(&seq.to_vec(), k);
        format!("ok {}", nat_list(&v))
    })
    .unwrap_or_else(|p| format!("panic {p}"));
    if let Some(m) = ctx.ask(&format!("kmer-enum {} {}", k, hex(seq))) {
        if m != real_enum {
            rep.disagree("kmer-enum", case.clone(), &m, &real_enum);
        }
    }
    if full && !has_reset && seq.len() == k {
        let d = pack(seq);
        let real_rc = guarded(|| format!("ok {}", reverse_complement_kmer(d, k as u32))).unwrap_or_else(|p| format!("panic {p}"));
        if let Some(m) = ctx.ask(&format!("kmer-rc {} {}", k, d)) {
            if m != real_rc {
                rep.disagree("kmer-rc", case.clone(), &m, &real_rc);
            }
        }
        let real_c = guarded(|| format!("ok {}", canonical_kmer(d, k as u32))).unwrap_or_else(|p| format!("panic {p}"));
        if let Some(m) = ctx.ask(&format!("kmer-canon {} {}", k, d)) {
            if m != real_c {
                rep.disagree("kmer-canon", case, &m, &real_c);
            }
        }
    }
    if rep.samples.len() < 4 && seq.len() > k && has_reset {
        rep.sample(json!({"k": k, "seq": hex(seq), "impl": real}));
    }
}

pub fn run(ctx: &mut Ctx) -> Report {
    let mut rep = Report::new(
        "C20",
        "exhaustive windows/sequences for small k, then random sequences (k 1..32, lengths 0..3k+8, resets with prob 0..1/4); \
         a case is non-trivial if it contains at least one full window; distinct by (k, sequence)",
    );
    if let Some(r) = ctx.replay.clone() {
        let k = r["case"]["k"].as_u64().unwrap_or(1) as usize;
        let seq = crate::model::unhex(r["case"]["seq"].as_str().unwrap_or("-")).unwrap_or_default();
        one_case(ctx, &mut rep, k, &seq, "replay");
        return rep;
    }
    // 1. all 4^k windows
    let kmax_win = ctx.t(6, 8);
    for k in 1..=kmax_win {
        let n = 1u64 << (2 * k);
        for v in 0..n {
            let seq: Vec<u8> = (0..k).map(|i| ((v >> (2 * (k - 1 - i))) & 3) as u8).collect();
            one_case(ctx, &mut rep, k, &seq, "all-windows");
        }
    }
    // 2. all sequences of length <= k+3 over {0,1,2,3,4}
    let kmax_seq = ctx.t(3, 5);
    for k in 1..=kmax_seq {
        for len in 0..=k + 3 {
            let n = 5u64.pow(len as u32);
            for v in 0..n {
                let mut x = v;
                let seq: Vec<u8> = (0..len).map(|_| { let d = (x % 5) as u8; x /= 5; d }).collect();
                one_case(ctx, &mut rep, k, &seq, "all-seqs");
            }
        }
    }
    // 3. random, all k
    let n_rand = ctx.t(6000, 120000);
    for c in 0..n_rand {
        let mut rng = Rng::new(ctx.seed, 20, c);
        let k = if rng.chance(1, 5) { 32 } else { rng.range(1, 32) as usize };
        let len = rng.range(0, (3 * k + 8) as u64) as usize;
        let reset_den = *rng.pick(&[0u64, 0, 4, 16, 64]);
        let seq: Vec<u8> = (0..len)
            .map(|_| if reset_den > 0 && rng.chance(1, reset_den) { *rng.pick(&[4u8, 5, 15, 30]) } else { rng.below(4) as u8 })
            .collect();
        one_case(ctx, &mut rep, k, &seq, "random");
    }
    rep
}
