//! C06 bounded priority queue: the real `MemoryBoundedQueue` under p producers / c consumers /
//! one closer with seeded programs and seeded schedule perturbation (hook H2). Every run's
//! under-lock event log is (1) replayed through the Lean transition system (`q-replay`: every event
//! enabled, every snapshot equal, every take maximal) and (2) checked directly: exactly-once,
//! priority order, capacity bound, close semantics, termination (watchdog).
//!
//! Admission rule since the repair of D5 (commit c0ac607): an item is admitted iff the queue is open
//! and (it fits on top of what is queued or the queue is empty). The capacity clause is therefore
//! "bytes queued <= capacity, or exactly one item is queued and it alone exceeds the capacity", which
//! is "bytes queued <= capacity" whenever each item individually fits.
use crate::report::Report;
use crate::rng::Rng;
use crate::Ctx;
use ragc_core::memory_bounded_queue::{MemoryBoundedQueue, PushError, TryPushError};
use ragc_core::verif_hooks as vh;
use serde_json::{json, Value};
use std::cell::Cell;
use std::cmp::Ordering as CmpOrd;
use std::collections::{HashMap, HashSet};
use std::sync::atomic::{AtomicUsize, Ordering};
use std::sync::{mpsc, Arc};
use std::time::{Duration, Instant};

/// Queue element ordered like the pipeline's `ContigTask` (agc_compressor.rs 190–220):
/// priority, then cost, then *lower* sequence number first. `id` is not part of the order, so two
/// tasks with the same (prio, cost, seq) compare `Equal` (a tie).
#[derive(Clone, Debug)]
struct Task {
    prio: u32,
    cost: u32,
    seq: u32,
    id: u64,
}
impl Ord for Task {
    fn cmp(&self, o: &Self) -> CmpOrd {
        self.prio.cmp(&o.prio).then(self.cost.cmp(&o.cost)).then(o.seq.cmp(&self.seq))
    }
}
impl PartialOrd for Task {
    fn partial_cmp(&self, o: &Self) -> Option<CmpOrd> {
        Some(self.cmp(o))
    }
}
impl PartialEq for Task {
    fn eq(&self, o: &Self) -> bool {
        self.cmp(o) == CmpOrd::Equal
    }
}
impl Eq for Task {}
impl Task {
    /// order-isomorphic natural number (the model's `Item.prio`)
    fn key(&self) -> u64 {
        ((self.prio as u64) << 40) | ((self.cost as u64) << 20) | (0xF_FFFF - self.seq as u64)
    }
}

#[derive(Clone, Debug)]
enum Op {
    Push(Task, usize),
    TryPush(Task, usize),
    Pull,
    TryPull,
    Close,
    /// closer only: wait until `n` operations have completed in total or nothing moves any more
    Await(usize),
    /// scripted scenarios only
    Sleep(u64),
}

#[derive(Clone, Debug, PartialEq)]
enum Res {
    PushOk,
    PushClosed,
    TryOk,
    TryClosed,
    TryWouldBlock,
    Pulled(u64),
    PullNone,
    TryPulled(u64),
    TryNone,
    Closed,
    Awaited,
}

struct Case {
    idx: u64,
    cap: usize,
    progs: Vec<Vec<Op>>,
    /// per thread: perturbation profile
    profiles: Vec<u32>,
    producers: usize,
    consumers: usize,
}

// ---------------------------------------------------------------- schedule perturbation

thread_local! {
    static P_RNG: Cell<u64> = const { Cell::new(0) };
    static P_PROFILE: Cell<u32> = const { Cell::new(0) };
}

fn p_next() -> u64 {
    P_RNG.with(|r| {
        let mut z = r.get().wrapping_add(0x9E3779B97F4A7C15);
        r.set(z);
        z = (z ^ (z >> 30)).wrapping_mul(0xBF58476D1CE4E5B9);
        z = (z ^ (z >> 27)).wrapping_mul(0x94D049BB133111EB);
        z ^ (z >> 31)
    })
}

/// installed with `install_yield`; called before the lock is taken in push(1) try_push(2) pull(3)
/// try_pull(4) close(5). Profile: bits 0..1 level (0 none, 1 yields, 2 yields+sleeps, 3 heavy),
/// bits 8..13 mask of codes that are slowed down in addition.
fn perturb(code: u32) {
    let prof = P_PROFILE.with(|p| p.get());
    let level = prof & 3;
    if level == 0 {
        return;
    }
    let r = p_next();
    let slow = (prof >> 8) & (1 << code) != 0;
    if slow && r % 4 == 0 {
        std::thread::sleep(Duration::from_micros(20 + (r >> 8) % 150));
        return;
    }
    match level {
        1 => {
            if r % 4 == 0 {
                std::thread::yield_now();
            }
        }
        2 => {
            if r % 2 == 0 {
                std::thread::yield_now();
            } else if r % 32 == 1 {
                std::thread::sleep(Duration::from_micros(10 + (r >> 8) % 100));
            }
        }
        _ => {
            if r % 8 == 0 {
                std::thread::sleep(Duration::from_micros(10 + (r >> 8) % 200));
            } else {
                std::thread::yield_now();
            }
        }
    }
}

// ---------------------------------------------------------------- generation

const CAPS: &[usize] = &[0, 1, 2, 3, 4, 7, 10, 16, 50, 100, 1000, 1 << 20, 1 << 40];

fn gen_size(rng: &mut Rng, cap: usize, blocking: bool) -> usize {
    let capc = cap.min(1 << 41);
    if rng.chance(1, if blocking { 16 } else { 12 }) {
        // larger than the whole capacity: admitted only into the empty queue (push sleeps on a
        // non-empty one, try_push says WouldBlock there)
        return capc + 1 + rng.below(5) as usize;
    }
    if capc == 0 {
        return 0;
    }
    match rng.below(10) {
        0 => 0,
        1 => capc,
        2..=5 => rng.range(1, capc as u64) as usize,
        _ => rng.range(1, (capc as u64 / 4).max(1)) as usize,
    }
}

fn gen_task(rng: &mut Rng, id: u64, pool: &[(u32, u32, u32)]) -> Task {
    let (prio, cost, seq) = if rng.chance(1, 2) {
        *rng.pick(pool)
    } else {
        (rng.below(3) as u32, rng.below(4) as u32, rng.below(1000) as u32)
    };
    Task { prio, cost, seq, id }
}

fn gen_case(seed: u64, idx: u64) -> Case {
    let mut rng = Rng::new(seed, 6, idx);
    let cap = *rng.pick(CAPS);
    let small = rng.chance(1, 3);
    let mut producers = if small { rng.range(1, 2) } else { rng.range(1, 8) } as usize;
    let mut consumers = if small { rng.range(1, 2) } else { rng.range(1, 8) } as usize;
    if rng.chance(1, 8) {
        producers = 8;
        consumers = 7; // 16 threads with the closer
    }
    if producers + consumers > 15 {
        consumers = 15 - producers;
    }
    let max_ops = *rng.pick(&[4u64, 12, 40, 100, 200]);
    // a small pool of keys so that equal priorities are frequent
    let pool: Vec<(u32, u32, u32)> = (0..rng.range(1, 4)).map(|_| (rng.below(2) as u32, rng.below(2) as u32, rng.below(3) as u32)).collect();
    let mut next_id = 1u64;
    let mut progs = vec![];
    let mut total_ops = 0usize;
    let n = producers + consumers;
    for t in 0..n {
        // role: 0 producer, 1 consumer, 2 mixed
        let role = if rng.chance(1, 6) { 2 } else if t < producers { 0 } else { 1 };
        let len = rng.range(1, max_ops) as usize;
        let mut prog = Vec::with_capacity(len);
        for _ in 0..len {
            let k = rng.below(100);
            let kind = match role {
                0 => if k < 65 { 0 } else if k < 93 { 1 } else { 3 },
                1 => if k < 65 { 2 } else if k < 93 { 3 } else { 1 },
                _ => k % 4,
            };
            let op = match kind {
                0 => { let it = gen_task(&mut rng, next_id, &pool); next_id += 1; let s = gen_size(&mut rng, cap, true); Op::Push(it, s) }
                1 => { let it = gen_task(&mut rng, next_id, &pool); next_id += 1; let s = gen_size(&mut rng, cap, false); Op::TryPush(it, s) }
                2 => Op::Pull,
                _ => Op::TryPull,
            };
            prog.push(op);
        }
        total_ops += len;
        progs.push(prog);
    }
    // the closer never blocks before `close`: only try-operations, then it waits for progress
    let mut prog = vec![];
    for _ in 0..rng.below(8) {
        if rng.chance(1, 2) {
            let it = gen_task(&mut rng, next_id, &pool);
            next_id += 1;
            let s = gen_size(&mut rng, cap, false);
            prog.push(Op::TryPush(it, s));
        } else {
            prog.push(Op::TryPull);
        }
    }
    let target = match rng.below(4) {
        0 => 0,
        1 => total_ops, // close only when everybody else is finished or stuck
        _ => rng.below(total_ops as u64 + 1) as usize,
    };
    prog.push(Op::Await(target));
    prog.push(Op::Close);
    for _ in 0..rng.below(8) {
        let op = match rng.below(5) {
            0 => { let it = gen_task(&mut rng, next_id, &pool); next_id += 1; let s = gen_size(&mut rng, cap, true); Op::Push(it, s) }
            1 => { let it = gen_task(&mut rng, next_id, &pool); next_id += 1; let s = gen_size(&mut rng, cap, false); Op::TryPush(it, s) }
            2 => Op::Pull,
            3 => Op::TryPull,
            _ => Op::Close, // closing twice is allowed
        };
        prog.push(op);
    }
    progs.push(prog);
    let run_level = rng.below(4) as u32;
    let profiles = (0..progs.len())
        .map(|_| {
            let level = if rng.chance(1, 4) { rng.below(4) as u32 } else { run_level };
            let mask = match rng.below(4) { 0 => 0b001010u32, 1 => 0b010100, 2 => rng.below(64) as u32, _ => 0 };
            level | (mask << 8)
        })
        .collect();
    Case { idx, cap, progs, profiles, producers, consumers }
}

// ---------------------------------------------------------------- execution

struct RunOut {
    log: Vec<vh::Ev>,
    /// per thread: results of the completed operations (all of them unless the run hung)
    results: Vec<Vec<Res>>,
    hung: Vec<usize>,
    leftover: Vec<u64>,
}

fn run_case(case: &Case, seed: u64, timeout: Duration) -> RunOut {
    let q: MemoryBoundedQueue<Task> = MemoryBoundedQueue::new(case.cap);
    let n = case.progs.len();
    let progress = Arc::new(AtomicUsize::new(0));
    let partial: Vec<Arc<std::sync::Mutex<Vec<Res>>>> = (0..n).map(|_| Arc::new(std::sync::Mutex::new(vec![]))).collect();
    let (tx, rx) = mpsc::channel::<usize>();
    vh::install_yield(Some(perturb));
    vh::start_logging();
    let mut handles = vec![];
    for t in 0..n {
        let q = q.clone();
        let prog = case.progs[t].clone();
        let prof = case.profiles[t];
        let progress = progress.clone();
        let out = partial[t].clone();
        let tx = tx.clone();
        let pseed = seed ^ case.idx.wrapping_mul(0x9E37_79B9) ^ ((t as u64) << 48);
        handles.push(std::thread::spawn(move || {
            vh::set_thread(t as u32 + 1);
            P_RNG.with(|r| r.set(pseed));
            P_PROFILE.with(|p| p.set(prof));
            for op in prog {
                let r = match op {
                    Op::Push(it, s) => match q.push(it, s) {
                        Ok(()) => Res::PushOk,
                        Err(PushError::Closed) => Res::PushClosed,
                    },
                    Op::TryPush(it, s) => match q.try_push(it, s) {
                        Ok(()) => Res::TryOk,
                        Err(TryPushError::Closed) => Res::TryClosed,
                        Err(TryPushError::WouldBlock) => Res::TryWouldBlock,
                    },
                    Op::Pull => match q.pull() {
                        Some(x) => Res::Pulled(x.id),
                        None => Res::PullNone,
                    },
                    Op::TryPull => match q.try_pull() {
                        Some(x) => Res::TryPulled(x.id),
                        None => Res::TryNone,
                    },
                    Op::Close => {
                        q.close();
                        Res::Closed
                    }
                    Op::Await(target) => {
                        let t0 = Instant::now();
                        let mut last = progress.load(Ordering::SeqCst);
                        let mut last_change = Instant::now();
                        loop {
                            let now = progress.load(Ordering::SeqCst);
                            if now >= target || t0.elapsed() > Duration::from_millis(1500) {
                                break;
                            }
                            if now != last {
                                last = now;
                                last_change = Instant::now();
                            } else if last_change.elapsed() > Duration::from_millis(3) {
                                break; // everybody else is blocked (or slow): close now
                            }
                            std::thread::sleep(Duration::from_micros(50));
                        }
                        Res::Awaited
                    }
                    Op::Sleep(us) => {
                        std::thread::sleep(Duration::from_micros(us));
                        Res::Awaited
                    }
                };
                out.lock().unwrap().push(r);
                progress.fetch_add(1, Ordering::SeqCst);
            }
            let _ = tx.send(t);
        }));
    }
    drop(tx);
    let deadline = Instant::now() + timeout;
    let mut finished = vec![false; n];
    let mut left = n;
    while left > 0 {
        let now = Instant::now();
        if now >= deadline {
            break;
        }
        match rx.recv_timeout(deadline - now) {
            Ok(t) => {
                finished[t] = true;
                left -= 1;
            }
            Err(_) => break,
        }
    }
    let hung: Vec<usize> = (0..n).filter(|&t| !finished[t]).collect();
    let log;
    let mut results_at_stop: Option<Vec<Vec<Res>>> = None;
    if hung.is_empty() {
        for h in handles {
            let _ = h.join();
        }
        log = vh::stop_logging();
    } else {
        // report what is stuck, then try to release the threads so they do not pile up
        log = vh::stop_logging();
        results_at_stop = Some(partial.iter().map(|m| m.lock().unwrap().clone()).collect::<Vec<Vec<Res>>>());
        q.close();
        let t1 = Instant::now() + Duration::from_secs(2);
        while left > 0 && Instant::now() < t1 {
            if let Ok(t) = rx.recv_timeout(Duration::from_millis(100)) {
                finished[t] = true;
                left -= 1;
            }
        }
        for (t, h) in handles.into_iter().enumerate() {
            if finished[t] {
                let _ = h.join();
            } else {
                std::mem::forget(h);
            }
        }
    }
    vh::install_yield(None);
    // what is still queued (after logging stopped)
    let mut leftover = vec![];
    if hung.is_empty() {
        while let Some(x) = q.try_pull() {
            leftover.push(x.id);
        }
    }
    let results = results_at_stop.unwrap_or_else(|| partial.iter().map(|m| m.lock().unwrap().clone()).collect());
    RunOut { log, results, hung, leftover }
}

// ---------------------------------------------------------------- analysis

fn kind_code(k: &str) -> Option<&'static str> {
    Some(match k {
        "q.push.enter" => "pe",
        "q.push.wait" => "pw",
        "q.push.wake" => "pk",
        "q.push.refuse" => "pr",
        "q.push.admit" => "pa",
        "q.trypush.refuse" => "tr",
        "q.trypush.wouldblock" => "tb",
        "q.trypush.admit" => "ta",
        "q.pull.enter" => "le",
        "q.pull.wait" => "lw",
        "q.pull.wake" => "lk",
        "q.pull.eos" => "ls",
        "q.pull.take" => "lt",
        "q.trypull.empty" => "te",
        "q.trypull.take" => "tt",
        "q.close" => "cl",
        _ => return None,
    })
}

/// One log event annotated with the item of the call it belongs to.
#[derive(Clone)]
struct AEv {
    code: &'static str,
    t: usize,
    id: u64,
    key: u64,
    size: u64,
    len: u64,
    cur: u64,
    closed: bool,
}

/// Attach to every event the item its call carries. The k-th completing event of thread t belongs
/// to the k-th queue operation of thread t's program. `Err` = log and observed results disagree.
fn annotate(case: &Case, out: &RunOut) -> Result<Vec<AEv>, String> {
    let n = case.progs.len();
    let mut items: HashMap<u64, (u64, u64)> = HashMap::new(); // id -> (key, size)
    for p in &case.progs {
        for op in p {
            if let Op::Push(it, s) | Op::TryPush(it, s) = op {
                items.insert(it.id, (it.key(), *s as u64));
            }
        }
    }
    let mut cursor = vec![0usize; n];
    let mut res = vec![];
    let ptr = out.log.iter().find(|e| e.kind.starts_with("q.")).map(|e| e.args[0]);
    for (i, e) in out.log.iter().enumerate() {
        let code = match kind_code(e.kind) {
            Some(c) => c,
            None => continue,
        };
        if Some(e.args[0]) != ptr {
            return Err(format!("event {i} belongs to another queue"));
        }
        let t = e.tid as usize;
        if t == 0 || t > n {
            return Err(format!("event {i} from unknown thread {t}"));
        }
        let t = t - 1;
        let prog = &case.progs[t];
        while cursor[t] < prog.len() && matches!(prog[cursor[t]], Op::Await(_) | Op::Sleep(_)) {
            cursor[t] += 1;
        }
        let k = cursor[t];
        if k >= prog.len() {
            return Err(format!("event {i} ({}) of thread {t} after its last operation", e.kind));
        }
        let op = &prog[k];
        // result observed by the caller (absent only for the unfinished call of a hung thread)
        let got = out.results[t].get(k);
        let completes = !matches!(code, "pe" | "pw" | "pk" | "le" | "lw" | "lk");
        let (id, key, size) = match (code, op) {
            ("pe" | "pw" | "pk" | "pr" | "pa", Op::Push(it, s)) | ("tr" | "tb" | "ta", Op::TryPush(it, s)) => {
                (it.id, it.key(), *s as u64)
            }
            ("le" | "lw" | "lk" | "ls", Op::Pull) | ("te", Op::TryPull) | ("cl", Op::Close) => (0, 0, 0),
            ("lt", Op::Pull) | ("tt", Op::TryPull) => match got {
                Some(Res::Pulled(id)) | Some(Res::TryPulled(id)) => match items.get(id) {
                    Some(&(key, size)) => (*id, key, size),
                    None => return Err(format!("event {i}: thread {t} was handed id {id} which nobody pushed")),
                },
                Some(r) => return Err(format!("event {i}: log says take, caller saw {r:?}")),
                None => return Err(format!("event {i}: take of an unfinished call")),
            },
            _ => return Err(format!("event {i}: {} does not belong to operation {k} of thread {t} ({op:?})", e.kind)),
        };
        if completes {
            let want = match code {
                "pr" => Some(Res::PushClosed),
                "pa" => Some(Res::PushOk),
                "tr" => Some(Res::TryClosed),
                "tb" => Some(Res::TryWouldBlock),
                "ta" => Some(Res::TryOk),
                "ls" => Some(Res::PullNone),
                "te" => Some(Res::TryNone),
                "cl" => Some(Res::Closed),
                _ => None,
            };
            if let (Some(w), Some(g)) = (&want, got) {
                if w != g {
                    return Err(format!("event {i}: log says {}, caller saw {g:?}", e.kind));
                }
            }
            cursor[t] += 1;
        }
        if matches!(code, "pe" | "pw" | "pk" | "pr" | "pa" | "tr" | "tb" | "ta" | "lt" | "tt") && e.args[1] != size {
            return Err(format!("event {i}: logged size {} != size {} of item {id}", e.args[1], size));
        }
        res.push(AEv { code, t, id, key, size, len: e.args[2], cur: e.args[3] >> 1, closed: e.args[3] & 1 == 1 });
    }
    if out.hung.is_empty() {
        for t in 0..n {
            while cursor[t] < case.progs[t].len() && matches!(case.progs[t][cursor[t]], Op::Await(_) | Op::Sleep(_)) {
                cursor[t] += 1;
            }
            if cursor[t] != case.progs[t].len() {
                return Err(format!("thread {t}: {} operations but only {} completed in the log", case.progs[t].len(), cursor[t]));
            }
        }
    }
    Ok(res)
}

fn trace_string(evs: &[AEv]) -> String {
    if evs.is_empty() {
        return "-".to_string();
    }
    let mut s = String::with_capacity(evs.len() * 24);
    for (i, e) in evs.iter().enumerate() {
        if i > 0 {
            s.push(',');
        }
        s.push_str(&format!("{}:{}:{}:{}:{}:{}:{}:{}", e.code, e.t, e.id, e.key, e.size, e.len, e.cur, e.closed as u8));
    }
    s
}

struct Stats {
    wait_nf: u64,
    wait_ne: u64,
    wake_after_close: u64,
    refuses: u64,
    wouldblocks: u64,
    ties: u64,
    takes: u64,
    admits: u64,
    eos: u64,
    /// a woken producer went back to sleep while another sleeping producer's item would fit
    fitting_left_asleep: u64,
    /// an item larger than the capacity was admitted into the empty queue / slept on a non-empty one
    oversize_admitted: u64,
    oversize_waits: u64,
}

/// The property, recomputed from the log alone (no model): returns (signature, message) failures.
fn oracle_log(cap: usize, evs: &[AEv]) -> (Vec<(&'static str, String)>, Stats) {
    let mut fails: Vec<(&'static str, String)> = vec![];
    let mut st = Stats { wait_nf: 0, wait_ne: 0, wake_after_close: 0, refuses: 0, wouldblocks: 0, ties: 0, takes: 0, admits: 0, eos: 0, fitting_left_asleep: 0, oversize_admitted: 0, oversize_waits: 0 };
    let mut sleeping: HashMap<usize, u64> = HashMap::new(); // producers inside not_full.wait: tid -> size
    let mut last_code: HashMap<usize, &'static str> = HashMap::new();
    let mut queued: Vec<(u64, u64, u64)> = vec![]; // (id, key, size)
    let mut ever: HashSet<u64> = HashSet::new();
    let mut taken: HashSet<u64> = HashSet::new();
    let mut closed = false;
    let cap = cap as u64;
    for (i, e) in evs.iter().enumerate() {
        let sum: u64 = queued.iter().map(|q| q.2).sum();
        match e.code {
            "pa" | "ta" => {
                st.admits += 1;
                if closed {
                    fails.push(("queue-closed-admit", format!("event {i}: item {} admitted after close", e.id)));
                }
                if !ever.insert(e.id) {
                    fails.push(("queue-exactly-once", format!("event {i}: item {} admitted twice", e.id)));
                }
                if sum + e.size > cap && !queued.is_empty() {
                    fails.push(("queue-capacity", format!("event {i}: admitted {} bytes on top of {} bytes in {} items with capacity {}", e.size, sum, queued.len(), cap)));
                }
                if e.size > cap {
                    st.oversize_admitted += 1;
                }
                queued.push((e.id, e.key, e.size));
            }
            "lt" | "tt" => {
                st.takes += 1;
                match queued.iter().position(|q| q.0 == e.id) {
                    None => {
                        let why = if taken.contains(&e.id) { "returned a second time" } else if ever.contains(&e.id) { "not queued" } else { "never accepted" };
                        fails.push(("queue-exactly-once", format!("event {i}: item {} {}", e.id, why)));
                    }
                    Some(p) => {
                        let best = queued.iter().map(|q| q.1).max().unwrap();
                        if e.key < best {
                            fails.push(("queue-priority", format!("event {i}: returned key {} while key {} was queued", e.key, best)));
                        }
                        if queued.iter().filter(|q| q.1 == best).count() > 1 {
                            st.ties += 1;
                        }
                        queued.swap_remove(p);
                        taken.insert(e.id);
                    }
                }
            }
            "pr" | "tr" => {
                st.refuses += 1;
                if !closed {
                    fails.push(("queue-refuse-open", format!("event {i}: push refused although the queue is open")));
                }
            }
            "tb" => {
                st.wouldblocks += 1;
                if closed || sum + e.size <= cap || queued.is_empty() {
                    fails.push(("queue-wouldblock", format!("event {i}: WouldBlock with {}+{} <= {} or empty ({} items) or closed={}", sum, e.size, cap, queued.len(), closed)));
                }
            }
            "ls" => {
                st.eos += 1;
                if !closed || !queued.is_empty() {
                    fails.push(("queue-eos", format!("event {i}: end-of-stream with closed={} and {} items queued", closed, queued.len())));
                }
            }
            "te" => {
                if !queued.is_empty() {
                    fails.push(("queue-eos", format!("event {i}: try_pull said empty with {} items queued", queued.len())));
                }
            }
            "pw" => {
                st.wait_nf += 1;
                if last_code.get(&e.t) == Some(&"pk") && sleeping.iter().any(|(_, &sz)| sum + sz <= cap) && !closed {
                    st.fitting_left_asleep += 1;
                }
                sleeping.insert(e.t, e.size);
                if closed || sum + e.size <= cap || queued.is_empty() {
                    fails.push(("queue-wait", format!("event {i}: push waits with {}+{} <= {} or empty ({} items) or closed={}", sum, e.size, cap, queued.len(), closed)));
                }
                if e.size > cap {
                    st.oversize_waits += 1;
                }
            }
            "lw" => {
                st.wait_ne += 1;
                if closed || !queued.is_empty() {
                    fails.push(("queue-wait", format!("event {i}: pull waits with {} items queued, closed={}", queued.len(), closed)));
                }
            }
            "pk" | "lk" => {
                if closed {
                    st.wake_after_close += 1;
                }
                if e.code == "pk" {
                    sleeping.remove(&e.t);
                }
            }
            "cl" => closed = true,
            _ => {}
        }
        last_code.insert(e.t, e.code);
        // snapshot logged by the code = state recomputed from the linearisation
        let sum: u64 = queued.iter().map(|q| q.2).sum();
        // within capacity, or exactly one queued item which alone exceeds the capacity
        if e.cur > cap && !(queued.len() == 1 && queued[0].2 > cap) {
            fails.push(("queue-capacity", format!("event {i}: current_size {} > capacity {} with {} items queued", e.cur, cap, queued.len())));
        }
        if e.cur != sum || e.len != queued.len() as u64 || e.closed != closed {
            fails.push(("queue-accounting", format!("event {i} ({}): logged (len {}, cur {}, closed {}) but the history gives (len {}, cur {}, closed {})",
                e.code, e.len, e.cur, e.closed, queued.len(), sum, closed)));
        }
        if fails.len() > 8 {
            break;
        }
    }
    (fails, st)
}

/// exactly-once from what the callers saw (independent of the log)
fn oracle_results(case: &Case, out: &RunOut) -> Vec<(&'static str, String)> {
    let mut fails = vec![];
    let mut accepted: HashSet<u64> = HashSet::new();
    let mut got: HashMap<u64, u32> = HashMap::new();
    for (t, prog) in case.progs.iter().enumerate() {
        for (k, op) in prog.iter().enumerate() {
            match (op, out.results[t].get(k)) {
                (Op::Push(it, _), Some(Res::PushOk)) | (Op::TryPush(it, _), Some(Res::TryOk)) => {
                    accepted.insert(it.id);
                }
                (_, Some(Res::Pulled(id))) | (_, Some(Res::TryPulled(id))) => {
                    *got.entry(*id).or_insert(0) += 1;
                }
                _ => {}
            }
        }
    }
    for id in &out.leftover {
        *got.entry(*id).or_insert(0) += 1;
    }
    for (id, c) in &got {
        if !accepted.contains(id) {
            fails.push(("queue-exactly-once", format!("item {id} was returned but never accepted")));
        } else if *c > 1 {
            fails.push(("queue-exactly-once", format!("item {id} was returned {c} times")));
        }
    }
    if out.hung.is_empty() {
        for id in &accepted {
            if !got.contains_key(id) {
                fails.push(("queue-exactly-once", format!("item {id} was accepted and never came out (not even when draining)")));
            }
        }
    }
    fails.truncate(5);
    fails
}

fn case_json(case: &Case, seed: u64) -> Value {
    json!({"case": case.idx, "seed": seed, "cap": case.cap as u64, "producers": case.producers, "consumers": case.consumers,
           "threads": case.progs.len(), "ops": case.progs.iter().map(|p| p.len()).collect::<Vec<_>>()})
}

fn set_max(rep: &mut Report, name: &str, v: u64) {
    let e = rep.counters.entry(name.to_string()).or_insert(0);
    if *e < v {
        *e = v;
    }
}

fn one_run(ctx: &mut Ctx, rep: &mut Report, case: &Case, attempt: u64, selftest: bool) -> Vec<AEv> {
    let seed = ctx.seed;
    let out = run_case(case, seed ^ attempt.wrapping_mul(0x51_7C_C1), Duration::from_secs(120));
    let cj = case_json(case, seed);
    if !out.hung.is_empty() {
        let tail: Vec<String> = out.log.iter().rev().take(12).rev().map(|e| format!("{}:{}:{:?}", e.tid, e.kind, &e.args[1..])).collect();
        rep.oracle_fail("queue-hang", &format!("threads {:?} did not finish within 120 s; last events {:?}", out.hung, tail), cj.clone());
    }
    let evs = match annotate(case, &out) {
        Ok(v) => v,
        Err(msg) => {
            rep.oracle_fail("queue-log", &msg, cj);
            rep.case(&(case.idx, attempt), false);
            return vec![];
        }
    };
    // direct oracle
    let (fails, st) = oracle_log(case.cap, &evs);
    for (sig, msg) in fails {
        rep.oracle_fail(sig, &msg, cj.clone());
    }
    for (sig, msg) in oracle_results(case, &out) {
        rep.oracle_fail(sig, &msg, cj.clone());
    }
    // correspondence
    let trace = trace_string(&evs);
    let mut spurious = 0u64;
    if let Some(m) = ctx.ask(&format!("q-replay {} {} {}", case.cap, case.progs.len(), trace)) {
        let w: Vec<&str> = m.split(' ').collect();
        if w.len() == 3 && w[0] == "ok" && w[1] == evs.len().to_string() {
            spurious = w[2].parse().unwrap_or(0);
        } else {
            let mut c = cj.clone();
            c["trace"] = json!(crate::report::clip(&trace));
            rep.disagree("q-replay", c, &m, &format!("ok {} _", evs.len()));
        }
    }
    // evidence
    rep.add("branch_wait_not_full", st.wait_nf);
    rep.add("branch_wait_not_empty", st.wait_ne);
    rep.add("branch_wake_after_close", st.wake_after_close);
    rep.add("branch_refuse", st.refuses);
    rep.add("branch_wouldblock", st.wouldblocks);
    rep.add("branch_equal_priority_tie", st.ties);
    rep.add("branch_fitting_producer_left_asleep", st.fitting_left_asleep);
    rep.add("branch_oversize_admitted_when_empty", st.oversize_admitted);
    rep.add("branch_oversize_push_waits_nonempty", st.oversize_waits);
    rep.add("branch_spurious_or_double_wake", spurious);
    rep.add("events_total", evs.len() as u64);
    rep.add("takes_total", st.takes);
    rep.add("admits_total", st.admits);
    rep.add("eos_total", st.eos);
    if st.wait_nf > 0 {
        rep.count("runs_with_wait_not_full");
    }
    if st.wait_ne > 0 {
        rep.count("runs_with_wait_not_empty");
    }
    if st.wake_after_close > 0 {
        rep.count("runs_with_wake_after_close");
    }
    if !out.leftover.is_empty() {
        rep.count("runs_with_items_left_after_close");
    }
    set_max(rep, "max_threads", case.progs.len() as u64);
    set_max(rep, "max_events_per_run", evs.len() as u64);
    rep.count(&format!("threads_{:02}", case.progs.len()));
    let nontrivial = st.takes > 0 && (st.wait_nf + st.wait_ne) > 0;
    rep.case(&(case.idx, attempt, trace.len(), st.wait_nf, st.wait_ne, st.takes), nontrivial);
    if rep.samples.len() < 4 && nontrivial && evs.len() < 60 {
        rep.sample(json!({"case": cj, "trace": trace}));
    }
    if selftest && out.hung.is_empty() {
        self_test(ctx, rep, case, &evs, &cj);
    }
    evs
}

// ---------------------------------------------------------------- sensitivity of the two checkers

/// Corrupt a real log in four ways that each violate one clause of the property and require that
/// both the direct oracle (with the expected signature) and the model replay reject the result.
fn self_test(ctx: &mut Ctx, rep: &mut Report, case: &Case, evs: &[AEv], cj: &Value) {
    let mut mutants: Vec<(&'static str, &'static str, usize, Vec<AEv>)> = vec![]; // (name, expected signature, cap, trace)
    // replay the queue contents to find suitable places
    let mut queued: Vec<(u64, u64, u64)> = vec![];
    let mut taken: Vec<(u64, u64, u64)> = vec![];
    let mut m_prio = None;
    let mut m_twice = None;
    for (i, e) in evs.iter().enumerate() {
        match e.code {
            "pa" | "ta" => queued.push((e.id, e.key, e.size)),
            "lt" | "tt" => {
                if m_prio.is_none() {
                    if let Some(lower) = queued.iter().find(|q| q.1 < e.key) {
                        let mut m = evs.to_vec();
                        m[i].id = lower.0;
                        m[i].key = lower.1;
                        m[i].size = lower.2;
                        m_prio = Some(m);
                    }
                }
                if m_twice.is_none() {
                    if let Some(old) = taken.first() {
                        let mut m = evs.to_vec();
                        m[i].id = old.0;
                        m[i].key = old.1;
                        m[i].size = old.2;
                        m_twice = Some(m);
                    }
                }
                if let Some(p) = queued.iter().position(|q| q.0 == e.id) {
                    taken.push(queued.swap_remove(p));
                }
            }
            _ => {}
        }
    }
    if let Some(m) = m_prio {
        mutants.push(("take-lower-priority", "queue-priority", case.cap, m));
    }
    if let Some(m) = m_twice {
        mutants.push(("return-twice", "queue-exactly-once", case.cap, m));
    }
    // close moved in front of an earlier accept
    if let Some(c) = evs.iter().position(|e| e.code == "cl") {
        if let Some(a) = evs[..c].iter().position(|e| e.code == "pa" || e.code == "ta") {
            let mut m: Vec<AEv> = evs[..a].to_vec();
            let mut cl = evs[c].clone();
            if a > 0 {
                cl.len = evs[a - 1].len;
                cl.cur = evs[a - 1].cur;
            } else {
                cl.len = 0;
                cl.cur = 0;
            }
            m.push(cl);
            for e in &evs[a..c] {
                let mut e = e.clone();
                e.closed = true;
                m.push(e);
            }
            m.extend_from_slice(&evs[c + 1..]);
            mutants.push(("accept-after-close", "queue-closed-admit", case.cap, m));
        }
    }
    // the same log under a smaller capacity: one byte less than the largest total reached by an
    // accept into a NON-empty queue (accepts into the empty queue are legal under any capacity)
    let mut peak = 0u64;
    for (i, e) in evs.iter().enumerate() {
        if (e.code == "pa" || e.code == "ta") && e.len >= 2 && i > 0 {
            peak = peak.max(e.cur);
        }
    }
    if peak >= 1 {
        mutants.push(("capacity-exceeded", "queue-capacity", (peak - 1) as usize, evs.to_vec()));
    }
    for (name, sig, cap, m) in mutants {
        rep.count("selftest_mutants");
        let (fails, _) = oracle_log(cap, &m);
        let oracle_ok = fails.iter().any(|f| f.0 == sig);
        let mut model_ok = true;
        if let Some(r) = ctx.ask(&format!("q-replay {} {} {}", cap, case.progs.len(), trace_string(&m))) {
            model_ok = r.starts_with("bad ");
        }
        if oracle_ok && model_ok {
            rep.count(&format!("selftest_caught_{name}"));
        } else {
            rep.oracle_fail(
                "queue-selftest",
                &format!("corrupted log ({name}) was not rejected: oracle={oracle_ok} model={model_ok}; oracle said {:?}", fails.iter().map(|f| f.0).collect::<Vec<_>>()),
                cj.clone(),
            );
        }
    }
}

// ---------------------------------------------------------------- scripted scenarios

fn plain(id: u64) -> Task {
    Task { prio: 0, cost: 0, seq: 0, id }
}

fn scripted(idx: u64, cap: usize, progs: Vec<Vec<Op>>) -> Case {
    let n = progs.len();
    Case { idx, cap, progs, profiles: vec![0; n], producers: 0, consumers: 0 }
}

/// The Lean witness `two_producers_delayed_wakeup` on the real queue: capacity 10, X(5) Y(5) queued,
/// producer 1 sleeps with A(10), then producer 2 with B(5); thread 0 takes one item. Which sleeper
/// the single notify_one wakes is up to the OS; the run is classified from the log.
fn scenario_two_producers(ctx: &mut Ctx, rep: &mut Report, k: u64) {
    let case = scripted(
        1_000_000 + k,
        10,
        vec![
            vec![Op::TryPush(plain(1), 5), Op::TryPush(plain(2), 5), Op::Sleep(15_000), Op::TryPull, Op::Sleep(15_000), Op::Close],
            vec![Op::Await(2), Op::Push(plain(3), 10)],
            vec![Op::Await(2), Op::Sleep(4_000), Op::Push(plain(4), 5)],
        ],
    );
    let evs = one_run(ctx, rep, &case, k, false);
    // classify: after the take, did thread 1 wake and go back to sleep while thread 2 (which fits) slept on?
    let take = evs.iter().position(|e| e.code == "tt");
    let close = evs.iter().position(|e| e.code == "cl");
    let class = match (take, close) {
        (Some(a), Some(c)) if a < c => {
            let both_asleep = evs[..a].iter().filter(|e| e.code == "pw").count() == 2;
            let mid = &evs[a + 1..c];
            let t1_rewait = mid.iter().any(|e| e.code == "pw" && e.t == 1);
            let t2_woke = mid.iter().any(|e| e.code == "pk" && e.t == 2);
            if !both_asleep {
                "not_set_up"
            } else if t1_rewait && !t2_woke {
                "fitting_producer_left_asleep"
            } else if t2_woke {
                "fitting_producer_woken"
            } else {
                "other"
            }
        }
        _ => "not_set_up",
    };
    rep.count(&format!("scenario_two_producers_{class}"));
}

/// Outside the model: `current_size + size_bytes` is `usize` arithmetic. In this (release, no overflow
/// checks) build a sum >= 2^64 wraps and the admission test passes. Informational counters only:
/// (a) capacity 10, an item of 2^64-3 bytes on top of 5 bytes is accepted by try_push (the item does
/// not fit on its own, so the property is silent); (b) capacity 2^64-1, two items of 2^64-1 bytes
/// each fit on their own and are both accepted (sum > capacity). Unchanged by the repair of D5
/// (the sum is evaluated first in both conditions). The Lean theorem `no_usize_overflow` shows that
/// no sum wraps when every item has at most M bytes and max(capacity, M) + M < 2^64 (M = capacity:
/// every item fits and 2*capacity < 2^64).
fn scenario_usize_wrap(rep: &mut Report) {
    let q: MemoryBoundedQueue<Task> = MemoryBoundedQueue::new(10);
    let a = q.try_push(plain(1), 5).is_ok();
    let b = crate::props::guarded(|| q.try_push(plain(2), usize::MAX - 2).is_ok());
    match b {
        Ok(true) if a => rep.count("scenario_usize_wrap_oversize_item_accepted"),
        Ok(_) => rep.count("scenario_usize_wrap_oversize_item_rejected"),
        Err(_) => rep.count("scenario_usize_wrap_oversize_item_panicked"),
    }
    let q: MemoryBoundedQueue<Task> = MemoryBoundedQueue::new(usize::MAX);
    let a = q.try_push(plain(1), usize::MAX).is_ok();
    let b = crate::props::guarded(|| q.try_push(plain(2), usize::MAX).is_ok());
    match b {
        Ok(true) if a => rep.count("scenario_usize_wrap_two_fitting_items_exceed_capacity"),
        Ok(_) => rep.count("scenario_usize_wrap_second_item_rejected"),
        Err(_) => rep.count("scenario_usize_wrap_second_item_panicked"),
    }
}

/// The repaired defect D5 (DESIGN §7; commit c0ac607) on the real queue, = the Lean examples under
/// `oversize_admitted_when_empty`. Before the repair run (1) hung for ever (producer asleep on
/// not_full with an empty queue, consumer asleep on not_empty); a hang is reported by the 10 s
/// watchdog of `one_run` with signature "queue-hang".
///  (1) capacity 4, consumer asleep on the empty queue, push of 6 bytes: admitted at once and taken;
///  (2) capacity 4, 2 bytes queued, push of 6 bytes: sleeps, the take that empties the queue wakes it,
///      it is admitted into the empty queue.
fn scenario_oversize(ctx: &mut Ctx, rep: &mut Report) {
    let case = scripted(2_000_000, 4, vec![vec![Op::Sleep(3_000), Op::Push(plain(1), 6)], vec![Op::Pull]]);
    let evs = one_run(ctx, rep, &case, 0, false);
    let admitted = evs.iter().any(|e| e.code == "pa" && e.size == 6);
    let waited = evs.iter().any(|e| e.code == "pw");
    let taken = evs.iter().any(|e| e.code == "lt" && e.size == 6);
    if admitted && !waited && taken {
        rep.count("scenario_oversize_push_admitted_into_empty_queue");
    } else if !evs.is_empty() {
        rep.oracle_fail("queue-oversize", &format!("oversize push into the empty queue: admitted={admitted} waited={waited} taken={taken}"), case_json(&case, ctx.seed));
    }
    let case = scripted(
        2_000_001,
        4,
        vec![vec![Op::TryPush(plain(1), 2), Op::Push(plain(2), 6)], vec![Op::Await(1), Op::Sleep(5_000), Op::TryPull, Op::Sleep(5_000), Op::TryPull]],
    );
    let evs = one_run(ctx, rep, &case, 0, false);
    let w = evs.iter().position(|e| e.code == "pw" && e.size == 6);
    let a = evs.iter().position(|e| e.code == "pa" && e.size == 6);
    match (w, a) {
        (Some(w), Some(a)) if w < a && evs[a].len == 1 => rep.count("scenario_oversize_push_waits_then_admitted_after_drain"),
        (None, Some(_)) => rep.count("scenario_oversize_push_second_variant_not_set_up"),
        _ if evs.is_empty() => {}
        _ => rep.oracle_fail("queue-oversize", &format!("oversize push on a non-empty queue: wait at {w:?}, accept at {a:?}"), case_json(&case, ctx.seed)),
    }
}

/// Watchdog self-test: a `pull` on an open empty queue with no producer blocks by design; the
/// watchdog (here 300 ms) must report it, and `close` must release it.
fn selftest_watchdog(ctx: &mut Ctx, rep: &mut Report) {
    let case = scripted(2_000_002, 4, vec![vec![Op::Pull]]);
    let out = run_case(&case, ctx.seed, Duration::from_millis(300));
    let cj = case_json(&case, ctx.seed);
    rep.case(&(case.idx, 0u64), false);
    if out.hung != vec![0] {
        rep.oracle_fail("queue-selftest", &format!("watchdog: expected the lonely pull to be stuck, stuck = {:?}", out.hung), cj);
        return;
    }
    rep.count("selftest_watchdog_fired");
    match annotate(&case, &out) {
        Ok(evs) => {
            let codes: Vec<&str> = evs.iter().map(|e| e.code).collect();
            if codes != vec!["le", "lw"] {
                rep.oracle_fail("queue-selftest", &format!("watchdog scenario: unexpected log {codes:?}"), cj.clone());
            }
            if let Some(m) = ctx.ask(&format!("q-replay {} {} {}", case.cap, 1, trace_string(&evs))) {
                if !m.starts_with(&format!("ok {} ", evs.len())) {
                    rep.disagree("q-replay", cj, &m, &format!("ok {} _", evs.len()));
                }
            }
        }
        Err(msg) => rep.oracle_fail("queue-log", &msg, cj),
    }
}

pub fn run(ctx: &mut Ctx) -> Report {
    let mut rep = Report::new(
        "C06",
        "real MemoryBoundedQueue<Task> driven by 1..8 producers, 1..8 consumers and one closer (<= 16 threads), seeded programs of \
         <= 200 push/try_push/pull/try_pull each, capacities 0..2^40, sizes 0..cap and, for about 1 in 14 items, cap+1..cap+5 (admitted only into the empty queue), frequent equal \
         priorities, seeded yields/sleeps before every lock acquisition; every run's under-lock log is replayed through the Lean \
         transition system and checked directly; non-trivial = at least one blocking wait and one take; distinct by (case, schedule)",
    );
    if let Some(r) = ctx.replay.clone() {
        let idx = r["case"]["case"].as_u64().unwrap_or(0);
        let seed = r["case"]["seed"].as_u64().unwrap_or(ctx.seed);
        let case = gen_case(seed, idx);
        // schedules are not reproducible: run the same programs under many schedules
        for a in 0..ctx.t(50, 500) {
            one_run(ctx, &mut rep, &case, a, false);
        }
        return rep;
    }
    let n = ctx.t(300, 5000);
    let n_self = ctx.t(60, 400);
    for idx in 0..n {
        let case = gen_case(ctx.seed, idx);
        one_run(ctx, &mut rep, &case, 0, idx < n_self);
    }
    for k in 0..ctx.t(3, 10) {
        scenario_two_producers(ctx, &mut rep, k);
    }
    scenario_oversize(ctx, &mut rep);
    selftest_watchdog(ctx, &mut rep);
    scenario_usize_wrap(&mut rep);
    rep.notes.push("thread schedules are not reproducible; a replay re-runs the same programs under many perturbed schedules".to_string());
    rep
}
