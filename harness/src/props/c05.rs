//! C05 the compression pipeline always terminates (and the trace-validation half of C04).
//!
//! The REAL pipeline (`StreamingQueueCompressor` driven exactly like ragc-cli's `create_archive`) is
//! run with the `--cfg ragc_verif` event log switched on, optionally with a seeded schedule
//! perturbation installed at the yield points, under a watchdog. Each run is then
//!  (1) compared push by push with the producer program of Model/Pipeline.lean (`pipe-program`):
//!      sequence numbers, priorities, costs, token flags, positions of the waits and of the close;
//!  (2) replayed event by event through the model's transition function (`pipe-replay`): every
//!      observed queue admit / take / end-of-stream, buffer append, barrier arrive / leave must be an
//!      enabled model action in the state reached so far, the run must end in a `Final` state and
//!      the model's batches must be the partition of the pushed contigs at the token rounds;
//!  (3) judged directly (also without a model): finalize returned within the timeout, every worker
//!      went through every barrier of every round and exited last, every pushed contig was pulled
//!      and buffered exactly once, the real batches (buffer appends between barrier-1 releases) are
//!      that same partition, and the archive extracts to the inputs.
//! The event log and the yield function are process-global: logged runs are strictly sequential.
use crate::gen::archive::{self, Params};
use crate::gen::genomes::{self, Presentation, Sample, SampleSet};
use crate::model::{nat_list, Model};
use crate::props::c01::{self, Case};
use crate::props::guarded;
use crate::report::Report;
use crate::rng::Rng;
use crate::Ctx;
use ragc_core::verif_hooks::{self as hooks, Ev};
use serde_json::{json, Value};
use std::cell::Cell;
use std::collections::{BTreeMap, BTreeSet, HashMap};
use std::path::{Path, PathBuf};
use std::sync::atomic::{AtomicU32, AtomicU64, Ordering};
use std::sync::Mutex;
use std::time::{Duration, Instant};

// ------------------------------------------------------------------ schedule perturbation

/// Seeded perturbation of the schedule at the yield points of memory_bounded_queue.rs (codes 1..5)
/// and worker_thread (10..15). `mode`: 0 none, 1 every point, 2 producer only (push / close entry:
/// starves the workers ⇒ empty-queue waits), 3 pulls only (pull entry / after pull: slow consumers ⇒
/// back-pressure), 4 worker-side points only (after pull, before barriers, before the buffer append).
#[derive(Clone, Copy, Debug, PartialEq, Eq)]
pub struct Perturb {
    pub mode: u32,
    /// probability (per mille) that an eligible yield point delays
    pub per_mille: u32,
    pub seed: u64,
}

impl Perturb {
    pub fn none() -> Perturb {
        Perturb { mode: 0, per_mille: 0, seed: 0 }
    }
    pub fn name(&self) -> &'static str {
        match self.mode {
            0 => "none",
            1 => "all_points",
            2 => "producer_only",
            3 => "pulls_only",
            _ => "worker_side",
        }
    }
    pub fn to_json(&self) -> Value {
        json!({"mode": self.mode, "per_mille": self.per_mille, "seed": self.seed})
    }
}

static P_SEED: AtomicU64 = AtomicU64::new(0);
static P_MODE: AtomicU32 = AtomicU32::new(0);
static P_PM: AtomicU32 = AtomicU32::new(0);
thread_local! {
    static P_CNT: Cell<u64> = const { Cell::new(0) };
}

fn perturb_fn(code: u32) {
    let on = match P_MODE.load(Ordering::Relaxed) {
        1 => true,
        2 => code == 1 || code == 5,
        3 => code == 3 || code == 10,
        4 => code >= 10,
        _ => false,
    };
    if !on {
        return;
    }
    let n = P_CNT.with(|c| {
        let v = c.get();
        c.set(v + 1);
        v
    });
    let tid = hooks::thread_id() as u64;
    let mut z = P_SEED.load(Ordering::Relaxed)
        ^ tid.wrapping_mul(0x9E3779B97F4A7C15)
        ^ n.wrapping_mul(0xD1B54A32D192ED03)
        ^ (code as u64).wrapping_mul(0xBF58476D1CE4E5B9);
    z = (z ^ (z >> 30)).wrapping_mul(0xBF58476D1CE4E5B9);
    z = (z ^ (z >> 27)).wrapping_mul(0x94D049BB133111EB);
    z ^= z >> 31;
    if (z % 1000) as u32 >= P_PM.load(Ordering::Relaxed) {
        return;
    }
    match (z >> 10) % 4 {
        0 | 1 => std::thread::yield_now(),
        _ => std::thread::sleep(Duration::from_micros((z >> 20) % 301)),
    }
}

// ------------------------------------------------------------------ logged runs

pub struct LoggedRun {
    pub events: Vec<Ev>,
    /// the create call returned (Ok, Err or panic) within the timeout
    pub finished: bool,
    /// `Some(Ok(()))` | `Some(Err(msg))` (an error, or `panic: …`) | `None` when it did not return
    pub create_result: Option<Result<(), String>>,
    pub elapsed_ms: u64,
}

/// Serialises everything that touches the global event log / yield function.
static LOGGED: Mutex<()> = Mutex::new(());

fn set_perturb(pt: &Perturb) {
    P_SEED.store(pt.seed, Ordering::SeqCst);
    P_PM.store(pt.per_mille, Ordering::SeqCst);
    P_MODE.store(pt.mode, Ordering::SeqCst);
    hooks::install_yield(if pt.mode == 0 { None } else { Some(perturb_fn as fn(u32)) });
}

/// Handle of a create run in flight on its own thread (which calls `set_thread(1)`): the caller is
/// the watchdog.
pub struct InFlight {
    rx: std::sync::mpsc::Receiver<Result<(), String>>,
    handle: Option<std::thread::JoinHandle<()>>,
    t0: Instant,
}

fn start_run(inputs: &[PathBuf], output: &Path, p: &Params, extra_syncs: &[usize], pt: &Perturb) -> InFlight {
    set_perturb(pt);
    hooks::start_logging();
    let (tx, rx) = std::sync::mpsc::channel();
    let (inputs, output, p, extra) = (inputs.to_vec(), output.to_path_buf(), p.clone(), extra_syncs.to_vec());
    let t0 = Instant::now();
    let handle = std::thread::Builder::new()
        .name("c05-producer".into())
        .spawn(move || {
            hooks::set_thread(1);
            let r = match guarded(|| archive::create_archive_ext(&inputs, &output, &p, &extra, true)) {
                Ok(r) => r,
                Err(pn) => Err(format!("panic: {pn}")),
            };
            let _ = tx.send(r);
        })
        .expect("spawn producer thread");
    InFlight { rx, handle: Some(handle), t0 }
}

impl InFlight {
    /// Wait up to `d` for the create call to return.
    fn wait(&mut self, d: Duration) -> Option<Result<(), String>> {
        match self.rx.recv_timeout(d) {
            Ok(r) => {
                if let Some(h) = self.handle.take() {
                    let _ = h.join();
                }
                Some(r)
            }
            Err(std::sync::mpsc::RecvTimeoutError::Timeout) => None,
            Err(std::sync::mpsc::RecvTimeoutError::Disconnected) => Some(Err("panic: producer thread died".into())),
        }
    }
    /// Stop logging and hand out the log. When the run did not return its thread is leaked (never joined).
    fn finish(mut self, res: Option<Result<(), String>>) -> LoggedRun {
        let events = hooks::stop_logging();
        hooks::install_yield(None);
        P_MODE.store(0, Ordering::SeqCst);
        drop(self.handle.take());
        LoggedRun { events, finished: res.is_some(), create_result: res, elapsed_ms: self.t0.elapsed().as_millis() as u64 }
    }
}

/// Run one create with logging on (and the perturbation `pt` installed) under a watchdog of
/// `timeout`. Not re-entrant by construction (global lock); nothing else in the process may drive a
/// pipeline meanwhile.
pub fn run_logged(inputs: &[PathBuf], output: &Path, p: &Params, extra_syncs: &[usize], pt: &Perturb, timeout: Duration) -> LoggedRun {
    let _g = LOGGED.lock().unwrap_or_else(|e| e.into_inner());
    let mut fl = start_run(inputs, output, p, extra_syncs, pt);
    // The watchdog measures INACTIVITY of the event log, not wall time: a run is given up only
    // when no event has been logged for `timeout` while some worker has not exited. Once all N
    // workers have exited the producer is in the single-threaded tail of finalize (level-19 ZSTD
    // of the metadata, file write), which logs nothing and can take long on a loaded machine:
    // it gets a hard limit of 30 minutes instead.
    let hard = Duration::from_secs(1800);
    let mut last_len = 0usize;
    let mut last_change = Instant::now();
    let res = loop {
        if let Some(r) = fl.wait(Duration::from_millis(500)) {
            break Some(r);
        }
        let snap = hooks::snapshot();
        if snap.len() != last_len {
            last_len = snap.len();
            last_change = Instant::now();
        }
        let exited = snap.iter().filter(|e| e.kind == "p.exit").count();
        let all_exited = exited >= p.threads.max(1);
        if fl.t0.elapsed() > hard || (!all_exited && last_change.elapsed() > timeout) {
            break None;
        }
    };
    fl.finish(res)
}

pub fn fmt_ev(e: &Ev) -> String {
    if e.kind.starts_with("q.") {
        format!("t{} {} size={} len={} cur={} closed={}", e.tid, e.kind, e.args[1], e.args[2], e.args[3] >> 1, e.args[3] & 1)
    } else if e.kind == "p.push" {
        format!("t{} p.push seq={} prio={} cost={} tok={}", e.tid, e.args[0], e.args[1] as i64, e.args[2], e.args[3])
    } else if e.kind == "p.pull" {
        format!("t{} p.pull w={} tok={} seq={} prio={}", e.tid, e.args[0], e.args[1], e.args[2], e.args[3] as i64)
    } else {
        format!("t{} {} {:?}", e.tid, e.kind, &e.args[..2])
    }
}

pub fn tail(events: &[Ev], n: usize) -> String {
    let from = events.len().saturating_sub(n);
    events[from..].iter().map(fmt_ev).collect::<Vec<_>>().join(" | ")
}

// ------------------------------------------------------------------ the trace

#[derive(Clone, Copy, Debug, PartialEq, Eq)]
pub struct Push {
    pub seq: u64,
    pub prio: i64,
    pub cost: u64,
    pub tok: bool,
}

/// What the harness reads out of an event log.
pub struct Trace {
    /// the model driver's event words, in linearisation order
    pub obs: Vec<String>,
    /// index into the log of each word
    pub obs_src: Vec<usize>,
    /// the producer's operations as `pipe-program` prints them (without the ghost `rd` field)
    pub prog_words: Vec<String>,
    /// index into `prog_words` where the first extra `sync_and_flush` starts
    pub first_extra: Option<usize>,
    pub pushes: Vec<Push>,
    /// things that make the log unreadable as a run of one producer + N workers on one queue
    pub problems: Vec<String>,
    pub push_waits: u64,
    pub pull_waits: u64,
    pub tid_worker: HashMap<u32, u64>,
}

pub fn parse_trace(events: &[Ev]) -> Trace {
    let mut t = Trace {
        obs: vec![],
        obs_src: vec![],
        prog_words: vec![],
        first_extra: None,
        pushes: vec![],
        problems: vec![],
        push_waits: 0,
        pull_waits: 0,
        tid_worker: HashMap::new(),
    };
    // pass 1: identities that are logged after the queue event they belong to
    let mut pulls: HashMap<u32, Vec<(u64, u64, u64, i64)>> = HashMap::new();
    let mut exits: HashMap<u32, Vec<u64>> = HashMap::new();
    let mut ptrs: BTreeSet<u64> = BTreeSet::new();
    for e in events {
        if e.kind.starts_with("q.") {
            ptrs.insert(e.args[0]);
        }
        let w = match e.kind {
            "p.pull" => {
                pulls.entry(e.tid).or_default().push((e.args[0], e.args[1], e.args[2], e.args[3] as i64));
                Some(e.args[0])
            }
            "p.exit" => {
                exits.entry(e.tid).or_default().push(e.args[0]);
                Some(e.args[0])
            }
            "p.buffered" | "p.barrier.arrive" | "p.barrier.leave" => Some(e.args[0]),
            _ => None,
        };
        if let Some(w) = w {
            if e.tid == 1 {
                t.problems.push(format!("worker event {} on the producer thread", e.kind));
            }
            let old = t.tid_worker.insert(e.tid, w);
            if old.is_some() && old != Some(w) {
                t.problems.push(format!("thread {} logs as worker {} and {}", e.tid, old.unwrap(), w));
            }
        }
    }
    if ptrs.len() > 1 {
        t.problems.push(format!("{} distinct queues in one log", ptrs.len()));
    }
    // pass 2
    let mut pending: Option<Push> = None;
    let mut takes: HashMap<u32, usize> = HashMap::new();
    let mut eoss: HashMap<u32, usize> = HashMap::new();
    for (i, e) in events.iter().enumerate() {
        let mut word: Option<String> = None;
        let producer_kind = matches!(e.kind, "p.push" | "p.close" | "q.close" | "h.wait" | "h.extra") || e.kind.starts_with("q.push.");
        if producer_kind && e.tid != 1 {
            t.problems.push(format!("producer event {} on thread {}", e.kind, e.tid));
            continue;
        }
        match e.kind {
            "p.push" => {
                if pending.is_some() {
                    t.problems.push(format!("p.push at {i} while the previous push was not admitted"));
                }
                let p = Push { seq: e.args[0], prio: e.args[1] as i64, cost: e.args[2], tok: e.args[3] != 0 };
                pending = Some(p);
                t.pushes.push(p);
                t.prog_words.push(format!("p:{}:{}:{}:{}", p.seq, p.prio, p.cost, p.tok as u8));
            }
            "q.push.admit" => match pending.take() {
                Some(p) => word = Some(format!("P:{}:{}:{}:{}:{}", p.tok as u8, p.seq, p.prio, p.cost, e.args[1])),
                None => t.problems.push(format!("q.push.admit at {i} without p.push")),
            },
            "q.push.wait" => t.push_waits += 1,
            "q.push.refuse" => t.problems.push(format!("q.push.refuse at {i}")),
            "h.wait" => {
                word = Some("W".into());
                t.prog_words.push("w".into());
            }
            "h.extra" => {
                t.first_extra.get_or_insert(t.prog_words.len());
            }
            "p.close" => t.prog_words.push("c".into()),
            "q.close" => word = Some("C".into()),
            "q.pull.take" => {
                let k = takes.entry(e.tid).or_insert(0);
                match pulls.get(&e.tid).and_then(|v| v.get(*k)) {
                    Some(&(w, tok, seq, prio)) => word = Some(format!("u:{}:{}:{}:{}", w, tok, seq, prio)),
                    None => t.problems.push(format!("q.pull.take at {i} on thread {} without a following p.pull", e.tid)),
                }
                *k += 1;
            }
            "q.pull.eos" => {
                let k = eoss.entry(e.tid).or_insert(0);
                match exits.get(&e.tid).and_then(|v| v.get(*k)) {
                    Some(&w) => word = Some(format!("x:{}", w)),
                    None => t.problems.push(format!("q.pull.eos at {i} on thread {} without a following p.exit", e.tid)),
                }
                *k += 1;
            }
            "q.pull.wait" => t.pull_waits += 1,
            "p.buffered" => word = Some(format!("b:{}:{}", e.args[0], e.args[1])),
            "p.barrier.arrive" => word = Some(format!("a:{}:{}", e.args[0], e.args[1])),
            "p.barrier.leave" => word = Some(format!("l:{}:{}", e.args[0], e.args[1])),
            k if k.starts_with("q.try") => t.problems.push(format!("unexpected {k} at {i}")),
            _ => {}
        }
        if let Some(w) = word {
            t.obs.push(w);
            t.obs_src.push(i);
        }
    }
    if pending.is_some() {
        t.problems.push("last p.push was never admitted".into());
    }
    t
}

/// The partition of the pushed contig sequence numbers at the token rounds (every run of `n`
/// tokens closes a round), each batch sorted. `Err` when the pushes do not end on a round boundary.
pub fn partition(pushes: &[Push], n: usize) -> Result<Vec<Vec<u64>>, String> {
    let mut out = vec![];
    let mut cur: Vec<u64> = vec![];
    let mut k = 0usize;
    for p in pushes {
        if p.tok {
            k += 1;
            if k == n {
                cur.sort();
                out.push(std::mem::take(&mut cur));
                k = 0;
            }
        } else {
            if k != 0 {
                return Err(format!("contig {} pushed inside a run of {} < N tokens", p.seq, k));
            }
            cur.push(p.seq);
        }
    }
    if k != 0 || !cur.is_empty() {
        return Err(format!("pushes end outside a round boundary: {} tokens of an open round, {} contigs after the last round", k, cur.len()));
    }
    Ok(out)
}

fn batches_str(b: &[Vec<u64>]) -> String {
    if b.is_empty() {
        "-".into()
    } else {
        b.iter().map(|l| nat_list(l)).collect::<Vec<_>>().join(";")
    }
}

/// The batches the real run formed: the sequences logged by `p.buffered` between consecutive
/// barrier-1 releases (the first `p.barrier.leave [_,1]` of each round).
pub fn real_batches(events: &[Ev], n: usize) -> Vec<Vec<u64>> {
    let mut out = vec![];
    let mut cur: Vec<u64> = vec![];
    let mut leaves = 0usize;
    for e in events {
        match e.kind {
            "p.buffered" => cur.push(e.args[1]),
            "p.barrier.leave" if e.args[1] == 1 => {
                if leaves % n.max(1) == 0 {
                    cur.sort();
                    out.push(std::mem::take(&mut cur));
                }
                leaves += 1;
            }
            _ => {}
        }
    }
    if !cur.is_empty() {
        cur.sort();
        out.push(cur); // buffered after the last release: will not match the partition
    }
    out
}

#[derive(Clone, Copy, PartialEq, Eq, Debug)]
enum WS {
    Idle,
    HoldTok,
    Working(u64),
    Bar(u64),
    Ph(u64),
    Exited,
}

/// Round accounting straight from the log (no model): per-worker protocol, counts, barrier order.
/// Returns (signature, message) pairs.
pub fn round_accounting(events: &[Ev], tr: &Trace, n: usize, rounds: usize) -> Vec<(&'static str, String)> {
    let mut bad: Vec<(&'static str, String)> = vec![];
    let acc = "pipeline-round-accounting";
    let mut st: BTreeMap<u64, WS> = (0..n as u64).map(|w| (w, WS::Idle)).collect();
    let mut arrive: BTreeMap<(u64, u64), usize> = BTreeMap::new();
    let mut leave: BTreeMap<(u64, u64), usize> = BTreeMap::new();
    let mut arrived_j = [0usize; 5];
    let mut left_j = [0usize; 5];
    let mut pulled: BTreeMap<u64, usize> = BTreeMap::new();
    let mut buffered: BTreeMap<u64, usize> = BTreeMap::new();
    let mut tok_pulls = 0usize;
    let mut exits: BTreeMap<u64, usize> = BTreeMap::new();
    for (i, e) in events.iter().enumerate() {
        if !matches!(e.kind, "p.pull" | "p.buffered" | "p.barrier.arrive" | "p.barrier.leave" | "p.exit") {
            continue;
        }
        let w = e.args[0];
        let Some(s) = st.get(&w).copied() else {
            bad.push((acc, format!("event {} of worker {} but there are only {} workers", e.kind, w, n)));
            continue;
        };
        let next = match (e.kind, s) {
            ("p.pull", WS::Idle) => {
                if e.args[1] != 0 {
                    tok_pulls += 1;
                    Some(WS::HoldTok)
                } else {
                    *pulled.entry(e.args[2]).or_insert(0) += 1;
                    Some(WS::Working(e.args[2]))
                }
            }
            ("p.buffered", WS::Working(c)) if c == e.args[1] => {
                *buffered.entry(c).or_insert(0) += 1;
                Some(WS::Idle)
            }
            ("p.barrier.arrive", WS::HoldTok) if e.args[1] == 1 => Some(WS::Bar(1)),
            ("p.barrier.arrive", WS::Ph(j)) if e.args[1] == j + 1 && j < 4 => Some(WS::Bar(j + 1)),
            ("p.barrier.leave", WS::Bar(j)) if e.args[1] == j => Some(if j == 4 { WS::Idle } else { WS::Ph(j) }),
            ("p.exit", WS::Idle) => Some(WS::Exited),
            _ => None,
        };
        match next {
            Some(nx) => {
                st.insert(w, nx);
            }
            None => {
                if bad.len() < 5 {
                    bad.push((acc, format!("worker {} in state {:?} logs {} at log index {}", w, s, fmt_ev(e), i)));
                }
                continue;
            }
        }
        match e.kind {
            "p.barrier.arrive" => {
                *arrive.entry((w, e.args[1])).or_insert(0) += 1;
                arrived_j[e.args[1].min(4) as usize] += 1;
            }
            "p.barrier.leave" => {
                *leave.entry((w, e.args[1])).or_insert(0) += 1;
                let j = e.args[1].min(4) as usize;
                left_j[j] += 1;
                // a barrier of N parties opens only after N arrivals of the same round
                let round = (left_j[j] + n - 1) / n;
                if arrived_j[j] < round * n && bad.len() < 5 {
                    bad.push(("pipeline-barrier-order", format!(
                        "worker {} left barrier {} of round {} (log index {}) after only {} of {} arrivals",
                        w, j, round, i, arrived_j[j], round * n)));
                }
            }
            "p.exit" => *exits.entry(w).or_insert(0) += 1,
            _ => {}
        }
    }
    for w in 0..n as u64 {
        for j in 1..=4u64 {
            let a = arrive.get(&(w, j)).copied().unwrap_or(0);
            let l = leave.get(&(w, j)).copied().unwrap_or(0);
            if a != rounds || l != rounds {
                bad.push((acc, format!("worker {w} barrier {j}: {a} arrivals, {l} leaves, expected {rounds} each")));
            }
        }
        if exits.get(&w).copied().unwrap_or(0) != 1 || st.get(&w) != Some(&WS::Exited) {
            bad.push((acc, format!("worker {w}: {} p.exit events, final state {:?}", exits.get(&w).copied().unwrap_or(0), st.get(&w))));
        }
    }
    // p.exit is the last event of its thread
    let mut last: HashMap<u32, &Ev> = HashMap::new();
    for e in events {
        last.insert(e.tid, e);
    }
    for (tid, w) in &tr.tid_worker {
        if let Some(e) = last.get(tid) {
            if e.kind != "p.exit" {
                bad.push((acc, format!("last event of worker {w} (thread {tid}) is {}", fmt_ev(e))));
            }
        }
    }
    let workers_seen: BTreeSet<u64> = tr.tid_worker.values().copied().collect();
    if workers_seen.len() != n || tr.tid_worker.len() != n {
        bad.push((acc, format!("{} worker threads / {} worker ids in the log, expected {}", tr.tid_worker.len(), workers_seen.len(), n)));
    }
    // every pushed contig pulled once and buffered once, every token pulled
    let mut npush_tok = 0usize;
    for p in &tr.pushes {
        if p.tok {
            npush_tok += 1;
            continue;
        }
        let (a, b) = (pulled.get(&p.seq).copied().unwrap_or(0), buffered.get(&p.seq).copied().unwrap_or(0));
        if a != 1 || b != 1 {
            bad.push((acc, format!("contig {}: pulled {} times, buffered {} times", p.seq, a, b)));
        }
    }
    let contig_seqs: BTreeSet<u64> = tr.pushes.iter().filter(|p| !p.tok).map(|p| p.seq).collect();
    for s in pulled.keys().chain(buffered.keys()) {
        if !contig_seqs.contains(s) {
            bad.push((acc, format!("contig {s} pulled/buffered but never pushed")));
        }
    }
    if contig_seqs.len() != tr.pushes.iter().filter(|p| !p.tok).count() {
        bad.push((acc, "two contigs were pushed with the same sequence number".into()));
    }
    if tok_pulls != npush_tok {
        bad.push((acc, format!("{npush_tok} tokens pushed, {tok_pulls} pulled")));
    }
    bad.truncate(8);
    bad
}

/// What `validate_trace` saw (for counters of the caller).
#[derive(Default, Debug)]
pub struct TraceSummary {
    pub rounds: usize,
    pub contigs: usize,
    pub push_waits: u64,
    pub pull_waits: u64,
    pub idle_workers: usize,
    pub out_of_order_pulls: usize,
    pub clean: bool,
}

fn window(tr: &Trace, events: &[Ev], idx: usize) -> String {
    let lo = idx.saturating_sub(8);
    let hi = (idx + 4).min(tr.obs.len());
    let mut s = String::new();
    for k in lo..hi {
        let src = tr.obs_src[k];
        s.push_str(&format!("{}[{}]{} <{}> ", if k == idx { ">>" } else { "" }, k, tr.obs[k], fmt_ev(&events[src])));
    }
    s
}

/// Checks (1) program correspondence, (2) trace inclusion + batch composition, and the log-level
/// part of (3) of a FINISHED run. `fx` selects the model's push guard (0 = the real one).
#[allow(clippy::too_many_arguments)]
pub fn validate_trace(
    model: &mut Option<Model>,
    rep: &mut Report,
    run: &LoggedRun,
    single_file: bool,
    sample_sizes: &[Vec<usize>],
    p: &Params,
    extra_syncs: &[usize],
    fx: u32,
    case: &Value,
) -> TraceSummary {
    let n = p.threads;
    let ev = &run.events;
    let tr = parse_trace(ev);
    let fails0 = rep.counters.get("oracle_failures_total").copied().unwrap_or(0) + rep.counters.get("disagreements_total").copied().unwrap_or(0);
    let mut sum = TraceSummary { push_waits: tr.push_waits, pull_waits: tr.pull_waits, ..Default::default() };
    sum.contigs = tr.pushes.iter().filter(|x| !x.tok).count();
    for m in tr.problems.iter().take(3) {
        rep.oracle_fail("pipeline-trace-malformed", m, case.clone());
    }
    // the expectation, computed here from the push log alone
    let part = match partition(&tr.pushes, n) {
        Ok(b) => b,
        Err(m) => {
            rep.oracle_fail("pipeline-round-accounting", &m, case.clone());
            vec![]
        }
    };
    sum.rounds = part.len();
    let want = batches_str(&part);

    // (1) the producer program
    if let Some(m) = model.as_mut() {
        let samples: Vec<String> = sample_sizes.iter().map(|s| nat_list(s)).collect();
        let req = format!("pipe-program {} {} {} {}", if single_file { "single" } else { "multi" }, n, p.pack_size, samples.join(" "));
        let reply = m.ask(&req);
        rep.count("model_pipe_program");
        if let Some(rest) = reply.strip_prefix("ok") {
            let words: Vec<String> = rest
                .split_whitespace()
                .map(|w| if w.starts_with("p:") { w.rsplitn(2, ':').nth(1).unwrap_or(w).to_string() } else { w.to_string() })
                .collect();
            let (mw, iw): (&[String], &[String]) = match tr.first_extra {
                Some(k) if !extra_syncs.is_empty() => {
                    rep.count("branch_extra_sync_program_prefix_only");
                    (&words[..k.min(words.len())], &tr.prog_words[..k])
                }
                _ => (&words[..], &tr.prog_words[..]),
            };
            if mw != iw {
                let d = mw.iter().zip(iw.iter()).position(|(a, b)| a != b).unwrap_or(mw.len().min(iw.len()));
                let show = |v: &[String]| v[d.saturating_sub(3)..(d + 4).min(v.len())].join(" ");
                rep.disagree(
                    "pipe-program",
                    case.clone(),
                    &format!("{} ops, from op {}: … {}", mw.len(), d.saturating_sub(3), show(mw)),
                    &format!("{} ops, from op {}: … {}", iw.len(), d.saturating_sub(3), show(iw)),
                );
            }
        } else {
            rep.disagree("pipe-program", case.clone(), &reply, &format!("a run of {} producer operations", tr.prog_words.len()));
        }
        // (2) trace inclusion
        let req = format!("pipe-replay {} {} {} {}", fx, n, p.queue_capacity, tr.obs.join(" "));
        rep.add("replayed_events", tr.obs.len() as u64);
        if let Ok(path) = std::env::var("VERIF_C05_DUMP") {
            let _ = std::fs::write(path, format!("{req}\n"));
        }
        let reply = m.ask(&req);
        rep.count("model_pipe_replay");
        let parts: Vec<&str> = reply.split_whitespace().collect();
        match parts.as_slice() {
            ["ok", fin, batches, _buffered] => {
                if *fin != "final" {
                    rep.oracle_fail("pipeline-not-final", &format!("the run returned but its replay ends in a non-final model state: {reply}"), case.clone());
                }
                if *batches != want {
                    rep.oracle_fail(
                        "pipeline-batch-composition",
                        &format!("model batches after replaying the run: {batches}; partition of the pushes at the token rounds: {want}"),
                        case.clone(),
                    );
                }
            }
            ["bad", idx, reason @ ..] => {
                let i: usize = idx.parse().unwrap_or(0);
                rep.disagree(
                    "pipe-replay",
                    case.clone(),
                    &format!("bad {} {}", i, reason.join(" ")),
                    &format!("real run (N={} cap={}) performed event {} of {}: {}", n, p.queue_capacity, i, tr.obs.len(), window(&tr, ev, i.min(tr.obs.len().saturating_sub(1)))),
                );
            }
            _ => rep.disagree("pipe-replay", case.clone(), &reply, &format!("a run of {} events", tr.obs.len())),
        }
    }

    // (3) log-level oracle
    for (sig, msg) in round_accounting(ev, &tr, n, part.len()) {
        rep.oracle_fail(sig, &msg, case.clone());
    }
    let real = batches_str(&real_batches(ev, n));
    if real != want {
        rep.oracle_fail(
            "pipeline-batch-composition",
            &format!("real batches (p.buffered between barrier-1 releases): {real}; partition of the pushes at the token rounds: {want}"),
            case.clone(),
        );
    }
    // counters of interest
    let mut pulled_by: BTreeMap<u64, usize> = BTreeMap::new();
    let mut last_seq: Option<u64> = None;
    for e in ev.iter().filter(|e| e.kind == "p.pull" && e.args[1] == 0) {
        *pulled_by.entry(e.args[0]).or_insert(0) += 1;
        if let Some(l) = last_seq {
            if e.args[2] < l {
                sum.out_of_order_pulls += 1;
            }
        }
        last_seq = Some(e.args[2]);
    }
    sum.idle_workers = (0..n as u64).filter(|w| !pulled_by.contains_key(w)).count();
    let fails1 = rep.counters.get("oracle_failures_total").copied().unwrap_or(0) + rep.counters.get("disagreements_total").copied().unwrap_or(0);
    sum.clean = fails1 == fails0;
    sum
}

/// Counters every caller wants from a validated trace.
pub fn count_summary(rep: &mut Report, s: &TraceSummary) {
    rep.count(&format!("rounds_{}", s.rounds.min(8)));
    if s.push_waits > 0 {
        rep.count("branch_push_waited");
        rep.add("push_waits_total", s.push_waits);
    }
    if s.pull_waits > 0 {
        rep.count("branch_pull_waited");
        rep.add("pull_waits_total", s.pull_waits);
    }
    if s.idle_workers > 0 {
        rep.count("branch_worker_idle_whole_run");
    }
    if s.out_of_order_pulls > 0 {
        rep.count("branch_contigs_pulled_out_of_push_order");
    }
}

// ------------------------------------------------------------------ case space

pub struct C5Case {
    pub case: Case,
    pub sizes: Vec<Vec<usize>>,
    pub extra_syncs: Vec<usize>,
    pub perturb: Perturb,
    pub cap_class: &'static str,
    pub mode: &'static str,
    pub oversize: bool,
    pub largest: usize,
}

fn gen_contig(rng: &mut Rng, pool: &mut Vec<Vec<u8>>, len: usize) -> Vec<u8> {
    if len == 0 {
        // a record whose sequence lines carry no letter: the reader filters it to an empty sequence,
        // which create_archive skips (main.rs `if sequence.is_empty() { continue }`). A record with NO
        // sequence line at all is a different matter: genome_io.rs read_contig_raw returns None for it,
        // i.e. silently ends the file there — not a pipeline question, kept out of this case space.
        return b"-*--".to_vec();
    }
    // half of the contigs are mutated copies of earlier material (so that LZ matching has work)
    let mut s = if !pool.is_empty() && rng.chance(1, 2) {
        let src = rng.pick(pool).clone();
        let mut v: Vec<u8> = src.iter().cycle().take(len).cloned().collect();
        for b in v.iter_mut() {
            if rng.chance(1, 40) {
                *b = b"ACGT"[rng.below(4) as usize];
            }
        }
        v
    } else {
        genomes::random_seq(rng, len)
    };
    if len > 0 && rng.chance(1, 30) {
        let i = rng.below(len as u64) as usize;
        s[i] = b'N';
    }
    if len >= 100 {
        pool.push(s.clone());
    }
    s
}

fn contig_len(rng: &mut Rng) -> usize {
    match rng.below(20) {
        0..=9 => rng.range(1, 50) as usize,
        10..=16 => rng.range(51, 300) as usize,
        _ => rng.range(301, 1000) as usize,
    }
}

fn build_set(rng: &mut Rng, sizes: &[Vec<usize>]) -> SampleSet {
    let mut pool = vec![];
    let samples = sizes
        .iter()
        .enumerate()
        .map(|(si, ls)| {
            let name = format!("s{:03}#1", si);
            let contigs = ls.iter().enumerate().map(|(ci, &l)| (format!("{}#ctg{}", name, ci), gen_contig(rng, &mut pool, l))).collect();
            Sample { name, contigs }
        })
        .collect();
    SampleSet { samples }
}

/// The C05 case space, derived from (seed, index). `oversize`: the dedicated D5 sub-case.
pub fn gen_case(seed: u64, idx: u64, oversize: bool) -> C5Case {
    let mut rng = Rng::new(seed, if oversize { 505 } else { 5 }, idx);
    let threads = if oversize { rng.range(1, 8) as usize } else { 1 + (idx % 16) as usize };
    let mode: &'static str = if oversize { "single" } else { ["single", "multi", "multi_extra_sync"][(idx % 3) as usize] };
    let single_file = mode == "single";
    let mut pack_size = 50usize;
    let mut extra_syncs: Vec<usize> = vec![];
    let mut sizes: Vec<Vec<usize>> = vec![];
    if oversize {
        // a few small contigs, one big one in the middle, a pack boundary before and after it
        pack_size = 3;
        let a: Vec<usize> = (0..rng.range(2, 4)).map(|_| rng.range(5, 120) as usize).collect();
        let mut b: Vec<usize> = (0..rng.range(2, 4)).map(|_| rng.range(5, 120) as usize).collect();
        // even sub-cases: the big contig is the one that CLOSES a sync round (global position
        // divisible by pack_size): push() queues the round's zero-size tokens first and then this
        // contig, so it meets a queue that holds nothing but tokens; odd sub-cases: anywhere
        let pos = if idx % 2 == 0 { (pack_size - 1 + pack_size - a.len() % pack_size) % pack_size } else { rng.below(b.len() as u64) as usize };
        let pos = pos.min(b.len());
        b.insert(pos, rng.range(400, 900) as usize);
        sizes = vec![a, b];
    } else if single_file {
        pack_size = rng.range(3, 20) as usize;
        let want_rounds = 1 + ((idx / 3) % 7) as usize;
        let lo = ((want_rounds - 1) * pack_size).max(1);
        let hi = (want_rounds * pack_size - 1).min(150);
        let total = rng.range(lo as u64, hi.max(lo) as u64) as usize;
        let n_samples = rng.range(1, 5.min(total) as u64) as usize;
        // split `total` contigs into n_samples non-empty runs
        let mut cuts: BTreeSet<usize> = BTreeSet::new();
        while cuts.len() < n_samples - 1 {
            cuts.insert(rng.range(1, total as u64 - 1) as usize);
        }
        let mut prev = 0;
        for c in cuts.iter().cloned().chain(std::iter::once(total)) {
            sizes.push((prev..c).map(|_| contig_len(&mut rng)).collect());
            prev = c;
        }
    } else {
        let files = rng.range(2, 5) as usize;
        for _ in 0..files {
            let n = if rng.chance(1, 5) { 1 } else { rng.range(1, 12) as usize };
            sizes.push((0..n).map(|_| contig_len(&mut rng)).collect());
        }
        if mode == "multi_extra_sync" {
            let extras = 1 + ((idx / 3) % 5) as usize;
            extra_syncs = (0..extras).map(|_| rng.below(files as u64) as usize).collect();
            extra_syncs.sort();
        }
    }
    // a few empty records (main.rs skips them, the model skips zero sizes), never first in a sample
    if !oversize && rng.chance(1, 4) {
        let s = rng.below(sizes.len() as u64) as usize;
        let at = rng.range(1, sizes[s].len() as u64) as usize;
        sizes[s].insert(at, 0);
    }
    let largest = sizes.iter().flatten().cloned().max().unwrap_or(1).max(1);
    let total: usize = sizes.iter().flatten().sum();
    let (cap_class, queue_capacity): (&'static str, usize) = if oversize {
        // index 0: exactly one base short; otherwise possibly below several contigs
        ("below_largest", if idx == 0 { largest - 1 } else { largest - 1 - rng.below(largest as u64 / 2) as usize })
    } else {
        match rng.below(8) {
            0 | 1 => ("exact", largest),
            2 | 3 | 4 => ("tight", largest + 1 + rng.below(largest.max(2) as u64 - 1) as usize),
            5 => ("mid", 2 * largest + rng.below(total as u64 + 1) as usize),
            _ => ("unbounded", 2 << 30),
        }
    };
    let perturb = if oversize && idx == 0 {
        Perturb::none()
    } else {
        let pseed = rng.next();
        match rng.below(8) {
            0 => Perturb::none(),
            1 => Perturb { mode: 1, per_mille: 100, seed: pseed },
            2 | 3 => Perturb { mode: 1, per_mille: 500, seed: pseed },
            4 => Perturb { mode: 2, per_mille: 800, seed: pseed },
            5 | 6 => Perturb { mode: 3, per_mille: 800, seed: pseed },
            _ => Perturb { mode: 4, per_mille: 600, seed: pseed },
        }
    };
    let params = Params {
        k: *rng.pick(&[11usize, 15, 21]),
        segment_size: *rng.pick(&[80usize, 200, 500]),
        min_match_len: 20,
        pack_size,
        threads,
        queue_capacity,
        fallback_frac: *rng.pick(&[0.0f64, 0.0, 0.1]),
    };
    let set = build_set(&mut rng, &sizes);
    let contigs = sizes.iter().flatten().filter(|&&l| l > 0).count();
    let desc = json!({"kind": if oversize { "oversize" } else { "normal" }, "seed": seed, "index": idx, "mode": mode,
        "contigs": contigs, "largest": largest, "total_bases": total, "sizes": sizes, "extra_syncs": extra_syncs,
        "capacity_class": cap_class, "perturb": perturb.to_json(), "params": params.to_json()});
    C5Case { case: Case { set, params, single_file, desc }, sizes, extra_syncs, perturb, cap_class, mode, oversize, largest }
}

fn check_extract(rep: &mut Report, case: &Case, out: &Path) {
    let expect = c01::expected(case);
    match guarded(|| archive::extract_all(out)) {
        Err(pn) => rep.oracle_fail("pipeline-extract", &format!("extraction panicked: {pn}"), case.desc.clone()),
        Ok(Err(e)) => rep.oracle_fail("pipeline-extract", &format!("extraction failed: {e}"), case.desc.clone()),
        Ok(Ok(got)) => {
            if let Err((sig, msg)) = c01::compare(&expect, &got) {
                rep.oracle_fail("pipeline-extract", &format!("{sig}: {msg}"), case.desc.clone());
            }
        }
    }
}

fn n_bucket(n: usize) -> &'static str {
    match n {
        1 => "threads_1",
        2 => "threads_2",
        3..=4 => "threads_3_4",
        5..=8 => "threads_5_8",
        9..=12 => "threads_9_12",
        _ => "threads_13_16",
    }
}

/// One normal case. Returns false when the run hung (global state polluted: stop).
fn run_case(ctx: &mut Ctx, rep: &mut Report, c: &C5Case, tag: &str) -> bool {
    let dir = PathBuf::from(&ctx.workdir).join(format!("c05_{tag}"));
    let _ = std::fs::remove_dir_all(&dir);
    let mut prng = Rng::new(ctx.seed, 105, 0);
    let inputs = c01::write_inputs(&dir, &c.case, &mut prng, &Presentation::plain());
    let out = dir.join("out.agc");
    let p = &c.case.params;
    let desc = &c.case.desc;
    let run = run_logged(&inputs, &out, p, &c.extra_syncs, &c.perturb, Duration::from_secs(180));
    let contigs = desc["contigs"].as_u64().unwrap_or(0) as usize;
    rep.count(&format!("mode_{}", c.mode));
    rep.count(n_bucket(p.threads));
    rep.count(&format!("threads_exact_{:02}", p.threads));
    rep.count(&format!("capacity_{}", c.cap_class));
    rep.count(&format!("perturb_{}", c.perturb.name()));
    rep.add("run_ms_total", run.elapsed_ms);
    rep.add("events_total", run.events.len() as u64);
    if c.sizes.iter().flatten().any(|&l| l == 0) {
        rep.count("branch_empty_record_skipped");
    }
    if c.case.single_file && contigs < p.pack_size {
        rep.count("branch_single_file_fewer_contigs_than_pack");
    }
    if !c.extra_syncs.is_empty() {
        rep.count("branch_extra_sync");
        let mut e = c.extra_syncs.clone();
        e.dedup();
        if e.len() < c.extra_syncs.len() {
            rep.count("branch_extra_sync_back_to_back_empty_round");
        }
    }
    if !run.finished {
        rep.case(&desc.to_string(), false);
        rep.oracle_fail(
            "pipeline-hang",
            &format!("create did not return: no pipeline event for 180 s with workers still running, or 30 min in total (N={} cap={}); last events: {}", p.threads, p.queue_capacity, tail(&run.events, 30)),
            desc.clone(),
        );
        return false;
    }
    match run.create_result.clone().unwrap() {
        Err(e) => {
            rep.case(&desc.to_string(), false);
            let sig = if e.starts_with("panic: ") { "pipeline-create-panic" } else { "pipeline-create-error" };
            rep.oracle_fail(sig, &format!("create failed: {e}; last events: {}", tail(&run.events, 12)), desc.clone());
            let _ = std::fs::remove_dir_all(&dir);
            // a worker that panicked inside a round leaves the others blocked: the global state is unusable
            return !e.starts_with("panic: ");
        }
        Ok(()) => {}
    }
    let s = validate_trace(&mut ctx.model, rep, &run, c.case.single_file, &c.sizes, p, &c.extra_syncs, 0, desc);
    if std::env::var("VERIF_C05_VERBOSE").is_ok() {
        eprintln!("[C05] case {} {} N={} cap={} perturb={}:{} contigs={} rounds={} events={} push_waits={} pull_waits={} {} ms clean={}",
            desc["index"], c.mode, p.threads, c.cap_class, c.perturb.name(), c.perturb.per_mille, contigs, s.rounds, run.events.len(),
            s.push_waits, s.pull_waits, run.elapsed_ms, s.clean);
    }
    rep.case(&desc.to_string(), contigs >= 2 && (s.rounds >= 2 || p.threads >= 2));
    count_summary(rep, &s);
    if s.clean {
        rep.count("runs_trace_validated");
    }
    check_extract(rep, &c.case, &out);
    if rep.samples.len() < 4 && s.rounds >= 2 && s.push_waits > 0 {
        rep.sample(json!({"case": {"kind": "normal", "seed": desc["seed"], "index": desc["index"], "mode": c.mode, "threads": p.threads,
            "capacity": p.queue_capacity, "contigs": contigs, "perturb": c.perturb.name()},
            "rounds": s.rounds, "events": run.events.len(), "push_waits": s.push_waits, "pull_waits": s.pull_waits, "ms": run.elapsed_ms}));
    }
    let _ = std::fs::remove_dir_all(&dir);
    true
}

/// The stuck state of defect D5 as the log shows it: the producer's last event is a `q.push.wait`
/// on an EMPTY queue for an item larger than the capacity, and the last event of each of the N
/// worker threads is a `q.pull.wait` — nobody can move (the model's non-final terminal state).
fn oversize_stuck(events: &[Ev], n: usize, cap: usize) -> Result<String, String> {
    let mut last: BTreeMap<u32, &Ev> = BTreeMap::new();
    for e in events {
        last.insert(e.tid, e);
    }
    let Some(pe) = last.get(&1) else { return Err("no producer event yet".into()) };
    if pe.kind != "q.push.wait" {
        return Err(format!("producer's last event is {}", fmt_ev(pe)));
    }
    if pe.args[2] != 0 || (pe.args[3] >> 1) != 0 {
        return Err(format!("producer waits on a non-empty queue: {}", fmt_ev(pe)));
    }
    if pe.args[1] as usize <= cap {
        return Err(format!("producer waits with an item that fits: {}", fmt_ev(pe)));
    }
    let workers: Vec<(&u32, &&Ev)> = last.iter().filter(|(t, _)| **t != 1).collect();
    let waiting = workers.iter().filter(|(_, e)| e.kind == "q.pull.wait" && e.args[2] == 0).count();
    if workers.len() != n || waiting != n {
        return Err(format!("{} worker threads in the log, {} of them in q.pull.wait on an empty queue (N={})", workers.len(), waiting, n));
    }
    Ok(format!("producer: {}; all {} workers: q.pull.wait len=0", fmt_ev(pe), n))
}

/// The D5 sub-case: capacity = largest contig − 1. Run LAST: on the unfixed tree the producer
/// thread (and the worker threads it owns) stay blocked and are leaked until the process exits.
fn run_oversize(ctx: &mut Ctx, rep: &mut Report, c: &C5Case) -> bool {
    let dir = PathBuf::from(&ctx.workdir).join("c05_oversize");
    let _ = std::fs::remove_dir_all(&dir);
    let mut prng = Rng::new(ctx.seed, 105, 0);
    let inputs = c01::write_inputs(&dir, &c.case, &mut prng, &Presentation::plain());
    let out = dir.join("out.agc");
    let p = &c.case.params;
    let desc = &c.case.desc;
    rep.case(&desc.to_string(), true);
    rep.count("oversize_subcase_runs");
    let _g = LOGGED.lock().unwrap_or_else(|e| e.into_inner());
    let mut fl = start_run(&inputs, &out, p, &[], &c.perturb);
    // Judged by the logged state, not by time: poll until the call returns, or the log shows the D5
    // stuck state and has not changed for 10 s, or (generic inactivity rule) nothing was logged for
    // 180 s while workers are still running / 30 min in total.
    let mut res = None;
    let mut stuck: Result<String, String> = Err("not examined".into());
    let mut last_len = 0usize;
    let mut last_change = Instant::now();
    loop {
        if let Some(r) = fl.wait(Duration::from_secs(1)) {
            res = Some(r);
            break;
        }
        let snap = hooks::snapshot();
        if snap.len() != last_len {
            last_len = snap.len();
            last_change = Instant::now();
        }
        stuck = oversize_stuck(&snap, p.threads, p.queue_capacity);
        if stuck.is_ok() && last_change.elapsed() > Duration::from_secs(10) {
            break;
        }
        let all_exited = snap.iter().filter(|e| e.kind == "p.exit").count() >= p.threads.max(1);
        if fl.t0.elapsed() > Duration::from_secs(1800) || (!all_exited && last_change.elapsed() > Duration::from_secs(180)) {
            break;
        }
    }
    let run = fl.finish(res);
    if !run.finished {
        match stuck {
            Ok(state) => {
                rep.count("oversize_push_blocked_forever");
                // the model agrees that the prefix is a run of the real guard and is not final
                let tr = parse_trace(&run.events);
                let mut verdict = "no model".to_string();
                if let Some(m) = ctx.model.as_mut() {
                    let reply = m.ask(&format!("pipe-replay 0 {} {} {}", p.threads, p.queue_capacity, tr.obs.join(" ")));
                    if reply.starts_with("ok running") {
                        rep.count("oversize_model_prefix_replayed_running");
                    } else {
                        rep.disagree("pipe-replay", desc.clone(), &reply, &format!("stuck prefix of {} events, expected `ok running`: … {}", tr.obs.len(), tail(&run.events, 10)));
                    }
                    verdict = reply;
                }
                rep.oracle_fail(
                    "pipeline-oversize-hang",
                    &format!(
                        "push of a {}-base contig into a queue of capacity {} never returns (N={}): {} ; model replay of the prefix: {}",
                        c.largest, p.queue_capacity, p.threads, state, crate::report::clip(&verdict)
                    ),
                    desc.clone(),
                );
            }
            Err(why) => rep.oracle_fail(
                "pipeline-hang",
                &format!("oversize sub-case did not return and is not in the D5 stuck state ({why}); last events: {}", tail(&run.events, 30)),
                desc.clone(),
            ),
        }
        return false; // the producer thread is leaked; nothing may run after this
    }
    // the defect has been repaired: the run must be a run of the model with the repaired guard
    match run.create_result.clone().unwrap() {
        Err(e) => rep.oracle_fail("pipeline-create-error", &format!("oversize sub-case: create failed: {e}"), desc.clone()),
        Ok(()) => {
            let s = validate_trace(&mut ctx.model, rep, &run, true, &c.sizes, p, &[], 1, desc);
            count_summary(rep, &s);
            check_extract(rep, &c.case, &out);
            rep.count("oversize_admitted");
            if s.clean {
                rep.count("oversize_runs_trace_validated_repaired_guard");
            }
        }
    }
    let _ = std::fs::remove_dir_all(&dir);
    true
}

pub fn run(ctx: &mut Ctx) -> Report {
    let mut rep = Report::new(
        "C05",
        "real create runs with the event log on: threads 1..16 (index mod 16), single-file with pack size 3..20 and 1..7 rounds / \
         multi-file / multi-file + extra sync_and_flush calls (2..7 rounds), <= 150 contigs of 0..1000 bases, queue capacity = largest contig / \
         largest + eps / a few contigs / unbounded, seeded perturbation at the yield points (none, all points, producer only, pulls only, \
         worker side); plus the D5 sub-cases, run last (capacity below the largest contig: either the log shows the stuck state, or the run \
         must be a run of the model with the repaired push guard). A run is non-trivial when it has >= 2 contigs and \
         (>= 2 rounds or >= 2 threads); distinct by generator description",
    );
    if let Some(r) = ctx.replay.clone() {
        let c = &r["case"];
        let oversize = c["kind"].as_str() == Some("oversize");
        let case = gen_case(c["seed"].as_u64().unwrap_or(1), c["index"].as_u64().unwrap_or(0), oversize);
        if oversize {
            run_oversize(ctx, &mut rep, &case);
        } else {
            run_case(ctx, &mut rep, &case, "replay");
        }
        return rep;
    }
    // every run costs >= ~1.2 s (the tail of finalize) whatever its size, ~1.6 s on the loaded machine:
    // 48 runs (every (threads, mode) pair once) ~ 80 s, 120 in the thorough tier (252 runs took 80 min on the busy machine: most of it is the event-by-event replay of the logs through the Lean model)
    let n = ctx.t(48, 120);
    let t0 = Instant::now();
    for i in 0..n {
        let case = gen_case(ctx.seed, i, false);
        if !run_case(ctx, &mut rep, &case, &format!("{i}")) {
            rep.notes.push(format!("stopped after case {i}: a run hung or a worker panicked, the global log/threads are no longer usable"));
            return rep;
        }
        if (i + 1) % 16 == 0 {
            eprintln!("[C05] {} / {} runs, {:.0}s", i + 1, n, t0.elapsed().as_secs_f64());
        }
    }
    // last: the sub-cases that may leak a blocked producer (stop at the first one that does)
    for i in 0..ctx.t(4, 12) {
        let case = gen_case(ctx.seed, i, true);
        if !run_oversize(ctx, &mut rep, &case) {
            break;
        }
    }
    rep
}
