//! C01 lossless round trip: create (library API driven as main.rs does) then extract every sample.
//! Oracle: extraction == input (names, order, bases). The archive bytes are also handed to the
//! Lean independent decoder (C02) when a model is available.
use crate::gen::archive::{self, Params};
use crate::gen::genomes::{self, GenOpts, Presentation, SampleSet};
use crate::props::guarded;
use crate::report::Report;
use crate::rng::Rng;
use crate::Ctx;
use serde_json::{json, Value};
use std::path::{Path, PathBuf};

pub struct Case {
    pub set: SampleSet,
    pub params: Params,
    pub single_file: bool,
    pub desc: Value,
}

/// The C01 input/parameter space, derived from (seed, index).
pub fn gen_case(seed: u64, idx: u64, big: bool) -> Case {
    let mut rng = Rng::new(seed, 1, idx);
    let k = *rng.pick(&[9usize, 11, 12, 15, 17, 21, 25, 31, 32]);
    let k = if rng.chance(1, 4) { rng.range(9, 32) as usize } else { k };
    let segment_size = *rng.pick(&[50usize, 80, 120, 200, 400, 1000, 2000]);
    let min_match_len = rng.range(15, 32) as usize;
    let threads = *rng.pick(&[1usize, 2, 3, 4, 8, 16]);
    let fallback_frac = *rng.pick(&[0.0f64, 0.0, 0.1, 1.0]);
    let single_file = rng.chance(1, 3);
    let n_samples = match rng.below(10) {
        0 => 1,
        1..=5 => rng.range(2, 5) as usize,
        6..=8 => rng.range(6, 14) as usize,
        _ => if big { rng.range(51, 130) as usize } else { rng.range(15, 30) as usize },
    };
    let many = n_samples > 30;
    let n_contigs = if many { rng.range(1, 2) } else { rng.range(1, 5) } as usize;
    let (lo, hi) = if many { (50, 600) } else { *rng.pick(&[(1usize, 300usize), (200, 3000), (1000, 8000), (3000, 20000)]) };
    let o = GenOpts {
        n_samples,
        n_contigs,
        len_lo: lo,
        len_hi: hi,
        div_per_mille: *rng.pick(&[0u64, 1, 5, 20, 50, 100]),
        iupac: rng.chance(1, 2),
        n_runs: rng.chance(1, 2),
        revcomp: rng.chance(1, 2),
        structural: rng.chance(1, 2),
        short_contigs: rng.chance(1, 3),
        k,
        pansn: single_file || rng.chance(1, 4),
        descriptions: rng.chance(1, 3),
    };
    let set = genomes::gen_sample_set(&mut rng, &o);
    let params = Params {
        k,
        segment_size,
        min_match_len,
        // pack cardinality (-l): the default almost always, other values so that a reader/writer
        // disagreement about it shows (more likely with many samples: groups with > N deltas)
        pack_size: if n_samples >= 12 && rng.chance(1, 2) { *rng.pick(&[10usize, 20, 100]) } else { *rng.pick(&[50usize, 50, 50, 50, 20, 100, 7]) },
        threads,
        queue_capacity: if rng.chance(1, 4) { 1 << 20 } else { 2 << 30 },
        fallback_frac,
    };
    let desc = json!({"seed": seed, "index": idx, "big": big, "single_file": single_file, "params": params.to_json(),
        "gen": format!("{:?}", o)});
    Case { set, params, single_file, desc }
}

/// Write the input files for a case (plain presentation) and return their paths.
pub fn write_inputs(dir: &Path, case: &Case, rng: &mut Rng, pres: &Presentation) -> Vec<PathBuf> {
    std::fs::create_dir_all(dir).unwrap();
    if case.single_file {
        let all: Vec<(String, Vec<u8>)> = case.set.samples.iter().flat_map(|s| s.contigs.clone()).collect();
        let text = genomes::render_fasta(rng, &all, pres);
        vec![genomes::write_presented(rng, dir, "all", &text, pres)]
    } else {
        case.set
            .samples
            .iter()
            .map(|s| {
                let text = genomes::render_fasta(rng, &s.contigs, pres);
                let stem = s.name.replace('#', "_");
                genomes::write_presented(rng, dir, &stem, &text, pres)
            })
            .collect()
    }
}

/// Expected catalogue: sample names in first-seen order with (header, letters).
pub fn expected(case: &Case) -> Vec<(String, Vec<(String, Vec<u8>)>)> {
    let mut out: Vec<(String, Vec<(String, Vec<u8>)>)> = vec![];
    for s in &case.set.samples {
        // sample name: PanSN part of the header if the header has >= 3 '#' fields, else file stem
        for (h, seq) in &s.contigs {
            let name = {
                let first = h.as_str();
                let parts: Vec<&str> = first.split('#').collect();
                if parts.len() >= 3 { format!("{}#{}", parts[0], parts[1]) } else { s.name.replace('#', "_") }
            };
            let letters = genomes::normalise_letters(seq);
            if letters.is_empty() {
                continue;
            }
            if let Some(e) = out.iter_mut().find(|e| e.0 == name) {
                e.1.push((h.clone(), letters));
            } else {
                out.push((name, vec![(h.clone(), letters)]));
            }
        }
    }
    out
}

pub fn first_diff(a: &[u8], b: &[u8]) -> String {
    let n = a.len().min(b.len());
    let mut ndiff = 0usize;
    let mut first = None;
    for i in 0..n {
        if a[i] != b[i] {
            ndiff += 1;
            if first.is_none() {
                first = Some(i);
            }
        }
    }
    match first {
        Some(i) => format!("{} of {} bases differ, first at {}: expected {:?} got {:?}", ndiff, n, i, a[i] as char, b[i] as char),
        None => format!("lengths differ: expected {} got {}", a.len(), b.len()),
    }
}

/// Compare extraction with the expectation. Err((signature, message)).
pub fn compare(expect: &[(String, Vec<(String, Vec<u8>)>)], got: &[(String, Vec<(String, Vec<u8>)>)]) -> Result<(), (String, String)> {
    let en: Vec<&String> = expect.iter().map(|e| &e.0).collect();
    let gn: Vec<&String> = got.iter().map(|e| &e.0).collect();
    if en != gn {
        return Err(("roundtrip-sample-list".into(), format!("sample list differs: expected {:?} got {:?}", en, gn)));
    }
    for (e, g) in expect.iter().zip(got) {
        let ec: Vec<&String> = e.1.iter().map(|c| &c.0).collect();
        let gc: Vec<&String> = g.1.iter().map(|c| &c.0).collect();
        if ec != gc {
            return Err(("roundtrip-contig-list".into(), format!("contig list of {} differs: expected {:?} got {:?}", e.0, ec, gc)));
        }
        for (ec, gc) in e.1.iter().zip(&g.1) {
            let letters = archive::codes_to_letters(&gc.1);
            if letters != ec.1 {
                let d = first_diff(&ec.1, &letters);
                // classify: only IUPAC (non-ACGTN) letters turned into N?
                let only_iupac_to_n = ec.1.len() == letters.len()
                    && ec.1.iter().zip(&letters).all(|(a, b)| a == b || (*b == b'N' && !b"ACGTN".contains(a)));
                let sig = if only_iupac_to_n { "roundtrip-iupac-to-N" } else { "roundtrip-bases" };
                return Err((sig.into(), format!("sample {} contig {:?}: {}", e.0, ec.0, d)));
            }
        }
    }
    Ok(())
}

pub fn run_case(workdir: &str, seed: u64, model: &mut Option<crate::model::Model>, rep: &mut Report, case: &Case, tag: &str) {
    let dir = PathBuf::from(workdir).join(format!("c01_{tag}"));
    let _ = std::fs::remove_dir_all(&dir);
    let mut prng = Rng::new(seed, 101, 0);
    let inputs = write_inputs(&dir, case, &mut prng, &Presentation::plain());
    let out = dir.join("out.agc");
    let total: usize = case.set.samples.iter().map(|s| s.contigs.iter().map(|c| c.1.len()).sum::<usize>()).sum();
    rep.case(&case.desc.to_string(), case.set.samples.len() >= 2);
    rep.add("bases_total", total as u64);
    rep.count(if case.single_file { "mode_single_file" } else { "mode_multi_file" });
    if case.set.samples.len() > 50 {
        rep.count("branch_multi_batch_samples");
    }
    let created = guarded(|| archive::create_archive(&inputs, &out, &case.params));
    match created {
        Err(p) => {
            rep.oracle_fail("create-panic", &format!("create panicked: {p}"), case.desc.clone());
        }
        Ok(Err(e)) => {
            rep.count("create_err");
            rep.notes.push(format!("create error (not a violation): {e}"));
        }
        Ok(Ok(())) => {
            let expect = expected(case);
            match guarded(|| archive::extract_all(&out)) {
                Err(p) => rep.oracle_fail("extract-panic", &format!("extraction panicked: {p}"), case.desc.clone()),
                Ok(Err(e)) => rep.oracle_fail("extract-error", &format!("extraction failed: {e}"), case.desc.clone()),
                Ok(Ok(got)) => {
                    if let Err((sig, msg)) = compare(&expect, &got) {
                        rep.oracle_fail(&sig, &msg, case.desc.clone());
                    }
                }
            }
            // The independent Lean decoder (C02) on the same archive: here only counted — the
            // oracle of C01 stays extract == input; a decoder disagreement is C02's failure.
            if let Some(m) = model.as_mut() {
                let bytes = std::fs::read(&out).unwrap_or_default();
                if bytes.len() > crate::props::c02::MAX_ARCHIVE_BYTES {
                    rep.count("lean_skipped_too_big");
                } else {
                    match crate::props::c02::lean_decode(m, &bytes) {
                        Ok(a) => {
                            rep.count("decoded_by_lean");
                            rep.add("lean_ms_total", a.lean_ms as u64);
                            crate::props::c02::count_branches(rep, &a);
                            rep.count(if crate::props::c02::compare_input(&a, &expect).is_ok() { "decoder_eq_input" } else { "decoder_ne_input" });
                            rep.count(if a.violations.is_empty() { "decoder_violations_empty" } else { "decoder_violations_nonempty" });
                        }
                        Err(_) => rep.count("decoder_rejects"),
                    }
                }
            }
            if rep.samples.len() < 3 {
                let size = std::fs::metadata(&out).map(|m| m.len()).unwrap_or(0);
                rep.sample(json!({"case": case.desc, "samples": case.set.samples.len(), "bases": total, "archive_bytes": size}));
            }
        }
    }
    let _ = std::fs::remove_dir_all(&dir);
}

pub fn run(ctx: &mut Ctx) -> Report {
    let mut rep = Report::new(
        "C01",
        "sample sets from the structured generator (base genome + SNP/indel/N-run/IUPAC/revcomp/structural variants), \
         parameters k 9..32, segment size 50..2000, min-match 15..32, threads 1..16, fallback 0/0.1/1, multi-file and single-file; \
         a case is non-trivial when it has >= 2 samples; distinct by generator description",
    );
    if let Some(r) = ctx.replay.clone() {
        let c = &r["case"];
        let (sd, ix) = (c["seed"].as_u64().unwrap_or(1), c["index"].as_u64().unwrap_or(0));
        let case = match c["variant"].as_str() {
            Some(v) if !v.is_empty() => crate::props::c02::gen_variant(sd, ix, v),
            _ => gen_case(sd, ix, c["big"].as_bool().unwrap_or(false)),
        };
        let mut m = ctx.spawn_model();
        run_case(&ctx.workdir, ctx.seed, &mut m, &mut rep, &case, "replay");
        return rep;
    }
    let n = ctx.t(40, 400);
    let (seed, workdir) = (ctx.seed, ctx.workdir.clone());
    crate::props::par_cases(ctx, &mut rep, n, 6, |m, r, i| {
        let big = i % 20 == 7;
        // one case in 20: many similar samples with small segments (LZ groups with > 50 distinct
        // deltas, i.e. several packs per delta stream, read back through ONE reader handle)
        let case = if i % 20 == 13 { crate::props::c02::gen_variant(seed, i, "many-samples") } else { gen_case(seed, i, big) };
        run_case(&workdir, seed, m, r, &case, &format!("{i}"));
    });
    rep
}
