//! C12 segment and pack compression is lossless: tuple_packing.rs / segment_compression.rs /
//! zstd_pool.rs vs Model/Tuple.lean + Model/SegCompress.lean, plus the round trips themselves
//! evaluated on the real code, and the two ZSTD assumptions (round trip, context-history
//! independence) exercised.
use crate::model::{hex, unhex};
use crate::props::guarded;
use crate::report::Report;
use crate::rng::Rng;
use crate::Ctx;
use ragc_core::segment_compression::{
    compress_reference_segment, compress_segment, compress_segment_configured, decompress_segment,
    decompress_segment_with_marker,
};
use ragc_core::tuple_packing::{bytes_to_tuples, tuples_to_bytes};
use ragc_core::zstd_pool::{compress_segment_pooled, decompress_segment_pooled};
use serde_json::{json, Value};

/// Levels the repository uses: 13/19 (references), 17 (delta default, `compress_segment`), and the
/// CLI's `-c` range 1..22 sampled at its ends and middle.
const LEVELS: [i32; 7] = [1, 3, 9, 13, 17, 19, 22];

/// Does this binary trap on integer overflow (profile `checked`) or wrap (profile `release`)?
fn overflow_checked() -> bool {
    guarded(|| {
        let a: usize = std::hint::black_box(1);
        std::hint::black_box(a - std::hint::black_box(2usize))
    })
    .is_err()
}

// ------------------------------------------------------------------ independent computations

/// (width, base) the format prescribes for a symbol range; None = stored verbatim.
fn width_base(max: u8) -> Option<(usize, u32)> {
    if max < 4 {
        Some((4, 4))
    } else if max < 6 {
        Some((3, 6))
    } else if max < 16 {
        Some((2, 16))
    } else {
        None
    }
}

/// From-scratch packing written from the format description (not from the Rust code):
/// groups of `w` symbols as base-`b` numbers, one more byte for the remainder, marker `w<<4 | len%w`.
fn scratch_pack(bytes: &[u8]) -> Vec<u8> {
    if bytes.is_empty() {
        return vec![0x10];
    }
    let max = *bytes.iter().max().unwrap();
    match width_base(max) {
        None => {
            let mut v = bytes.to_vec();
            v.push(0x10);
            v
        }
        Some((w, b)) => {
            let mut out = vec![];
            for ch in bytes.chunks(w) {
                if ch.len() == w {
                    out.push(ch.iter().fold(0u32, |c, &x| c * b + x as u32) as u8);
                }
            }
            let r = bytes.len() % w;
            let tail = &bytes[bytes.len() - r..];
            out.push(tail.iter().fold(0u32, |c, &x| c * b + x as u32) as u8);
            out.push(((w as u8) << 4) | r as u8);
            out
        }
    }
}

/// Exact (integer) repetitiveness decision: true = some offset in 4..32 has cur>0 and 2cnt >= cur.
/// Also returns how close the best offset is to the threshold: min over offsets of |2cnt - cur|
/// and whether equality is hit.
fn scratch_repetitive(data: &[u8]) -> (bool, i64) {
    let mut rep = false;
    let mut closest = i64::MAX;
    for off in 4..32usize {
        let mut cnt = 0i64;
        let mut cur = 0i64;
        if data.len() > off {
            for j in 0..data.len() - off {
                if data[j] == data[j + off] {
                    cnt += 1;
                }
                if data[j] < 4 {
                    cur += 1;
                }
            }
        }
        if cur > 0 {
            let d = 2 * cnt - cur;
            if d >= 0 {
                rep = true;
            }
            if d.abs() < closest.abs() || (d.abs() == closest.abs() && d > closest) {
                closest = d;
            }
        }
    }
    (rep, closest)
}

fn fresh_ctx_compress(data: &[u8], level: i32) -> Vec<u8> {
    let mut cctx = zstd::zstd_safe::CCtx::create();
    let mut out = vec![0u8; zstd::zstd_safe::compress_bound(data.len())];
    let n = cctx.compress(&mut out[..], data, level).expect("zstd compress");
    out.truncate(n);
    out
}

// ------------------------------------------------------------------ tuple cases (batched)

struct TupleBatch {
    inputs: Vec<Vec<u8>>,
    origin: &'static str,
}

fn count_tuple_branches(rep: &mut Report, bytes: &[u8]) {
    if bytes.is_empty() {
        rep.count("branch_empty");
        return;
    }
    let max = *bytes.iter().max().unwrap();
    match width_base(max) {
        Some((w, b)) => {
            rep.count(&format!("branch_range_lt{b}"));
            rep.count(&format!("branch_w{}_rem{}", w, bytes.len() % w));
            if bytes.len() >= 2 * w {
                rep.count("branch_two_or_more_full_tuples");
            }
        }
        None => rep.count("branch_range_ge16"),
    }
}

/// Oracle on the real code for one byte string: round trip, agreement with the from-scratch
/// packing, output length law. Returns the real packed bytes.
fn tuple_oracle(rep: &mut Report, bytes: &[u8], origin: &str) -> Option<Vec<u8>> {
    let case = json!({"kind": "tuple", "data": hex(bytes), "origin": origin});
    let packed = match guarded(|| bytes_to_tuples(bytes)) {
        Ok(p) => p,
        Err(m) => {
            rep.oracle_fail("tuple-enc-panic", &m, case);
            return None;
        }
    };
    match guarded(|| tuples_to_bytes(&packed)) {
        Ok(back) => {
            if back != bytes {
                rep.oracle_fail(
                    "tuple-roundtrip",
                    &format!("tuples_to_bytes(bytes_to_tuples(x)) != x: packed={} back={}", hex(&packed), hex(&back)),
                    case.clone(),
                );
            }
        }
        Err(m) => rep.oracle_fail("tuple-roundtrip-panic", &m, case.clone()),
    }
    let expect = scratch_pack(bytes);
    if packed != expect {
        rep.oracle_fail(
            "tuple-format",
            &format!("bytes_to_tuples = {} but the format description gives {}", hex(&packed), hex(&expect)),
            case,
        );
    }
    Some(packed)
}

impl TupleBatch {
    fn new(origin: &'static str) -> Self {
        TupleBatch { inputs: vec![], origin }
    }
    fn push(&mut self, ctx: &mut Ctx, rep: &mut Report, checked: bool, bytes: Vec<u8>) {
        self.inputs.push(bytes);
        let total: usize = self.inputs.iter().map(|b| b.len() + 1).sum();
        if self.inputs.len() >= 256 || total > 60_000 {
            self.flush(ctx, rep, checked);
        }
    }
    fn flush(&mut self, ctx: &mut Ctx, rep: &mut Report, checked: bool) {
        if self.inputs.is_empty() {
            return;
        }
        let inputs = std::mem::take(&mut self.inputs);
        let mut packed_all = Vec::with_capacity(inputs.len());
        for b in &inputs {
            rep.case(&("tuple", b), !b.is_empty());
            count_tuple_branches(rep, b);
            packed_all.push(tuple_oracle(rep, b, self.origin));
        }
        // correspondence: encode
        let req = format!("tuple-enc-many {}", inputs.iter().map(|b| hex(b)).collect::<Vec<_>>().join(" "));
        if let Some(reply) = ctx.ask(&req) {
            let parts: Vec<&str> = reply.split(' ').collect();
            if parts.first() != Some(&"ok") || parts.len() != inputs.len() + 1 {
                rep.disagree("tuple-enc-many", json!({"kind": "tuple", "data": hex(&inputs[0]), "origin": self.origin}), &reply, "batch reply malformed");
            } else {
                for (i, b) in inputs.iter().enumerate() {
                    let real = match &packed_all[i] {
                        Some(p) => hex(p),
                        None => "!".to_string(),
                    };
                    if parts[i + 1] != real {
                        rep.disagree("tuple-enc", json!({"kind": "tuple", "data": hex(b), "origin": self.origin}), parts[i + 1], &real);
                    }
                }
            }
        }
        // correspondence: decode of the real packed bytes
        let packed: Vec<&Vec<u8>> = packed_all.iter().flatten().collect();
        if !packed.is_empty() {
            let req = format!(
                "tuple-dec-many {} {}",
                if checked { 1 } else { 0 },
                packed.iter().map(|b| hex(b)).collect::<Vec<_>>().join(" ")
            );
            if let Some(reply) = ctx.ask(&req) {
                let parts: Vec<&str> = reply.split(' ').collect();
                if parts.first() != Some(&"ok") || parts.len() != packed.len() + 1 {
                    rep.disagree("tuple-dec-many", json!({"kind": "tuple-dec", "data": hex(packed[0])}), &reply, "batch reply malformed");
                } else {
                    for (i, p) in packed.iter().enumerate() {
                        let real = match guarded(|| tuples_to_bytes(p)) {
                            Ok(v) => hex(&v),
                            Err(_) => "!".to_string(),
                        };
                        if parts[i + 1] != real {
                            rep.disagree("tuple-dec", json!({"kind": "tuple-dec", "data": hex(p), "origin": self.origin}), parts[i + 1], &real);
                        }
                    }
                }
            }
        }
    }
}

/// Decoder on arbitrary (mostly malformed) tuple strings: outcome class and value, model vs code.
struct DecBatch {
    inputs: Vec<Vec<u8>>,
    origin: &'static str,
}

impl DecBatch {
    fn new(origin: &'static str) -> Self {
        DecBatch { inputs: vec![], origin }
    }
    fn push(&mut self, ctx: &mut Ctx, rep: &mut Report, checked: bool, ts: Vec<u8>) {
        self.inputs.push(ts);
        let total: usize = self.inputs.iter().map(|b| b.len() + 1).sum();
        if self.inputs.len() >= 256 || total > 60_000 {
            self.flush(ctx, rep, checked);
        }
    }
    fn flush(&mut self, ctx: &mut Ctx, rep: &mut Report, checked: bool) {
        if self.inputs.is_empty() {
            return;
        }
        let inputs = std::mem::take(&mut self.inputs);
        let mut real = Vec::with_capacity(inputs.len());
        for ts in &inputs {
            rep.case(&("tuple-dec", ts), !ts.is_empty());
            let r = match guarded(|| tuples_to_bytes(ts)) {
                Ok(v) => {
                    rep.count("branch_dec_ok");
                    // the decoder's answer, when there is one, has the size the marker announces
                    if let Some(&m) = ts.last() {
                        let nb = (m >> 4) as usize;
                        if nb != 1 && ts.len() >= 2 && v.len() != (ts.len() - 2) * nb + (m & 15) as usize {
                            rep.oracle_fail(
                                "tuple-dec-size",
                                &format!("decoded {} bytes, marker {:#x} announces {}", v.len(), m, (ts.len() - 2) * nb + (m & 15) as usize),
                                json!({"kind": "tuple-dec", "data": hex(ts), "origin": self.origin}),
                            );
                        }
                        if nb >= 2 && (m & 15) as usize >= nb {
                            rep.count("branch_dec_ok_trailing_ge_width");
                        }
                        if ts.len() == 1 && nb != 1 {
                            rep.count("branch_dec_ok_lone_marker");
                        }
                    }
                    hex(&v)
                }
                Err(msg) => {
                    let class = if msg.contains("Invalid no_bytes") {
                        "branch_dec_panic_invalid_no_bytes"
                    } else if msg.contains("index out of bounds") {
                        "branch_dec_panic_index"
                    } else if msg.contains("capacity overflow") {
                        "branch_dec_panic_capacity"
                    } else if msg.contains("overflow") {
                        "branch_dec_panic_arith_overflow"
                    } else {
                        "branch_dec_panic_other"
                    };
                    rep.count(class);
                    "!".to_string()
                }
            };
            real.push(r);
        }
        let req = format!(
            "tuple-dec-many {} {}",
            if checked { 1 } else { 0 },
            inputs.iter().map(|b| hex(b)).collect::<Vec<_>>().join(" ")
        );
        if let Some(reply) = ctx.ask(&req) {
            let parts: Vec<&str> = reply.split(' ').collect();
            if parts.first() != Some(&"ok") || parts.len() != inputs.len() + 1 {
                rep.disagree("tuple-dec-many", json!({"kind": "tuple-dec", "data": hex(&inputs[0])}), &reply, "batch reply malformed");
            } else {
                for (i, ts) in inputs.iter().enumerate() {
                    if parts[i + 1] != real[i] {
                        rep.disagree("tuple-dec", json!({"kind": "tuple-dec", "data": hex(ts), "origin": self.origin}), parts[i + 1], &real[i]);
                    }
                }
            }
        }
    }
}

// ------------------------------------------------------------------ segment cases

/// Reference segment: marker choice vs model (IEEE and integer form) and vs the independent
/// integer computation; what was handed to ZSTD; round trip through decompress_segment_with_marker.
fn ref_case(ctx: &mut Ctx, rep: &mut Report, checked: bool, data: &[u8], origin: &str, ask_model: bool) {
    let case = json!({"kind": "ref", "data": hex(data), "origin": origin});
    let (scr_rep, closest) = scratch_repetitive(data);
    let nontrivial = data.len() > 4;
    rep.case(&("ref", data), nontrivial);
    if closest == 0 {
        rep.count("branch_rep_exactly_half");
    } else if closest == -1 || closest == -2 {
        rep.count("branch_rep_just_below_half");
    } else if closest == 1 || closest == 2 {
        rep.count("branch_rep_just_above_half");
    }
    let vec = data.to_vec();
    let (compressed, marker) = match guarded(|| compress_reference_segment(&vec)) {
        Ok(Ok(x)) => x,
        Ok(Err(e)) => {
            rep.oracle_fail("ref-compress-err", &format!("{e}"), case);
            return;
        }
        Err(m) => {
            rep.oracle_fail("ref-compress-panic", &m, case);
            return;
        }
    };
    rep.count(if marker == 0 { "branch_marker0_plain" } else { "branch_marker1_tuples" });
    if compressed.is_empty() {
        rep.count("zstd_empty_output");
        rep.oracle_fail("zstd-empty-frame", "ZSTD produced an empty frame (decompress_segment_with_marker would return nothing)", case.clone());
    }
    // the marker is a function of the exact fraction
    let scr_marker = if scr_rep { 0 } else { 1 };
    if marker != scr_marker {
        rep.disagree("seg-marker-vs-integer-rule", case.clone(), &format!("ok {scr_marker}"), &format!("ok {marker}"));
    }
    if ask_model {
        let real = format!("ok {marker}");
        if let Some(m) = ctx.ask(&format!("seg-marker {}", hex(data))) {
            if m != real {
                rep.disagree("seg-marker", case.clone(), &m, &real);
            }
        }
        if let Some(m) = ctx.ask(&format!("seg-marker-nat {}", hex(data))) {
            if m != real {
                rep.disagree("seg-marker-nat", case.clone(), &m, &real);
            }
        }
        // what is handed to ZSTD and at which level: decode the real frame independently of ragc
        if let Some(m) = ctx.ask(&format!("seg-enc-ref {}", hex(data))) {
            let f: Vec<&str> = m.split(' ').collect();
            let payload_real = zstd::decode_all(&compressed[..]).ok();
            let ok = f.len() == 4 && f[0] == "ok" && f[1] == marker.to_string() && payload_real.as_deref().map(hex).as_deref() == Some(f[3]);
            if !ok {
                rep.disagree("seg-enc-ref", case.clone(), &m, &format!("ok {} ? {}", marker, payload_real.as_deref().map(hex).unwrap_or("err".into())));
            } else if let (Ok(level), Some(p)) = (f[2].parse::<i32>(), payload_real.as_ref()) {
                // same bytes as a brand-new context at the model's level (ties the level, and
                // exercises context-history independence on every case)
                rep.count("zstd_fresh_context_comparisons");
                if fresh_ctx_compress(p, level) != compressed {
                    rep.oracle_fail("zstd-context-history", &format!("reference frame differs from a fresh context at level {level}"), case.clone());
                }
            }
        }
    }
    // oracle: round trip with the stored marker
    match guarded(|| decompress_segment_with_marker(&compressed, marker)) {
        Ok(Ok(back)) => {
            if back != data {
                rep.oracle_fail("ref-roundtrip", &format!("marker {marker}: got {} bytes back, first difference at {:?}", back.len(), back.iter().zip(data).position(|(a, b)| a != b)), case.clone());
            }
            // decompress_segment_with_marker vs model given the independent ZSTD result
            if ask_model && data.len() <= 4096 {
                let zd = zstd::decode_all(&compressed[..]).map(|v| hex(&v)).unwrap_or("err".into());
                if let Some(m) = ctx.ask(&format!("seg-dec {} {} {} {}", if checked { 1 } else { 0 }, marker, hex(&compressed), zd)) {
                    let real = format!("ok {}", hex(&back));
                    if m != real {
                        rep.disagree("seg-dec", case.clone(), &m, &real);
                    }
                }
            }
        }
        Ok(Err(e)) => rep.oracle_fail("ref-roundtrip-err", &format!("{e}"), case.clone()),
        Err(m) => rep.oracle_fail("ref-roundtrip-panic", &m, case.clone()),
    }
    // the other marker path on the same data (the theorem covers both choices)
    let other = 1 - marker;
    let forced = if other == 1 {
        guarded(|| compress_segment_pooled(&bytes_to_tuples(&vec), 13).map(|c| (c, 1u8)))
    } else {
        guarded(|| compress_segment_pooled(&vec, 19).map(|c| (c, 0u8)))
    };
    if let Ok(Ok((c, mk))) = forced {
        rep.count(if mk == 0 { "forced_marker0_roundtrips" } else { "forced_marker1_roundtrips" });
        match guarded(|| decompress_segment_with_marker(&c, mk)) {
            Ok(Ok(back)) if back == data => {}
            other => rep.oracle_fail("ref-roundtrip-forced-marker", &format!("marker {mk}: {:?}", other.map(|r| r.map(|v| v.len()).map_err(|e| e.to_string()))), case.clone()),
        }
    }
    if rep.samples.len() < 4 && data.len() > 40 && closest.abs() <= 2 && (marker == 1) == (rep.samples.len() % 2 == 1) {
        rep.sample(json!({"kind": "ref", "len": data.len(), "marker": marker, "two_cnt_minus_cur_at_best_offset": closest, "compressed_len": compressed.len()}));
    }
}

/// Delta/raw pack: compress_segment_configured at every level + decompress (marker 0).
fn pack_case(ctx: &mut Ctx, rep: &mut Report, checked: bool, data: &[u8], levels: &[i32], origin: &str) {
    let vec = data.to_vec();
    for &level in levels {
        let case = json!({"kind": "pack", "data": hex(data), "level": level, "origin": origin});
        rep.case(&("pack", level, data), !data.is_empty());
        rep.count(&format!("branch_level_{level}"));
        let compressed = match guarded(|| compress_segment_configured(&vec, level)) {
            Ok(Ok(c)) => c,
            Ok(Err(e)) => {
                rep.oracle_fail("pack-compress-err", &format!("{e}"), case);
                continue;
            }
            Err(m) => {
                rep.oracle_fail("pack-compress-panic", &m, case);
                continue;
            }
        };
        if compressed.is_empty() {
            rep.count("zstd_empty_output");
            rep.oracle_fail("zstd-empty-frame", "ZSTD produced an empty frame", case.clone());
        }
        match guarded(|| decompress_segment_with_marker(&compressed, 0)) {
            Ok(Ok(back)) if back == data => {}
            other => rep.oracle_fail("pack-roundtrip", &format!("level {level}: {:?}", other.map(|r| r.map(|v| v.len()).map_err(|e| e.to_string()))), case.clone()),
        }
        match guarded(|| decompress_segment(&compressed)) {
            Ok(Ok(back)) if back == data => {}
            other => rep.oracle_fail("pack-roundtrip-plain", &format!("level {level}: {:?}", other.map(|r| r.map(|v| v.len()).map_err(|e| e.to_string()))), case.clone()),
        }
        // independent decoder agrees
        match zstd::decode_all(&compressed[..]) {
            Ok(back) if back == data => {}
            _ => rep.oracle_fail("pack-frame-not-zstd", &format!("level {level}: the zstd crate does not decode the frame to the input"), case.clone()),
        }
        rep.count("zstd_fresh_context_comparisons");
        if fresh_ctx_compress(data, level) != compressed {
            rep.oracle_fail("zstd-context-history", &format!("pack frame differs from a fresh context at level {level}"), case.clone());
        }
        if data.len() <= 2048 {
            if let Some(m) = ctx.ask(&format!("seg-dec {} 0 {} {}", if checked { 1 } else { 0 }, hex(&compressed), hex(data))) {
                let real = format!("ok {}", hex(data));
                if m != real {
                    rep.disagree("seg-dec", case.clone(), &m, &real);
                }
            }
        }
    }
    if levels.contains(&17) {
        // compress_segment = level 17
        let a = guarded(|| compress_segment(&vec).ok());
        let b = guarded(|| compress_segment_configured(&vec, 17).ok());
        if a != b {
            rep.oracle_fail("pack-default-level", "compress_segment differs from compress_segment_configured(_, 17)", json!({"kind": "pack", "data": hex(data), "level": 17, "origin": origin}));
        }
    }
}

/// decompress_segment_with_marker on arbitrary input: outcome class model vs code.
fn dec_marker_case(ctx: &mut Ctx, rep: &mut Report, checked: bool, compressed: &[u8], marker: u8, origin: &str) {
    let case = json!({"kind": "dec", "data": hex(compressed), "marker": marker, "origin": origin});
    rep.case(&("dec", marker, compressed), !compressed.is_empty());
    let real = match guarded(|| decompress_segment_with_marker(compressed, marker)) {
        Ok(Ok(v)) => {
            rep.count("branch_decm_ok");
            format!("ok {}", hex(&v))
        }
        Ok(Err(_)) => {
            rep.count("branch_decm_err");
            "err".to_string()
        }
        Err(_) => {
            rep.count("branch_decm_panic");
            "panic".to_string()
        }
    };
    if compressed.is_empty() {
        rep.count("branch_decm_empty_input");
    }
    let zd = if compressed.is_empty() { "err".to_string() } else { zstd::decode_all(compressed).map(|v| hex(&v)).unwrap_or("err".into()) };
    if let Some(m) = ctx.ask(&format!("seg-dec {} {} {} {}", if checked { 1 } else { 0 }, marker, hex(compressed), zd)) {
        if m != real {
            rep.disagree("seg-dec", case, &m, &real);
        }
    }
}

/// Same input after different histories of the thread-local context, and on other threads.
fn context_case(rep: &mut Report, data: &[u8], level: i32, rng: &mut Rng) {
    let case = json!({"kind": "ctx", "data": hex(data), "level": level});
    rep.case(&("ctx", level, data), !data.is_empty());
    let vec = data.to_vec();
    let reference = fresh_ctx_compress(data, level);
    // (a) current thread, whatever history it has by now
    let a = compress_segment_pooled(&vec, level).ok();
    // (b) after a burst of unrelated work at other levels and sizes
    let n_hist = rng.range(1, 6);
    for _ in 0..n_hist {
        let l = *rng.pick(&LEVELS);
        let len = *rng.pick(&[0usize, 1, 17, 300, 5000, 70000]);
        let alphabet = *rng.pick(&[2u64, 4, 5, 16, 256]);
        let junk: Vec<u8> = (0..len).map(|_| rng.below(alphabet) as u8).collect();
        let _ = compress_segment_pooled(&junk, l);
        rep.count("zstd_history_compressions");
    }
    let b = compress_segment_pooled(&vec, level).ok();
    // (c) brand-new threads (new thread-local context), one with its own history first
    let v1 = vec.clone();
    let v2 = vec.clone();
    let t1 = std::thread::spawn(move || compress_segment_pooled(&v1, level).ok());
    let t2 = std::thread::spawn(move || {
        let junk: Vec<u8> = (0..20000u32).map(|i| (i.wrapping_mul(2654435761) >> 13) as u8 & 3).collect();
        let _ = compress_segment_pooled(&junk, 19);
        let _ = compress_segment_pooled(&junk[..100].to_vec(), 1);
        compress_segment_pooled(&v2, level).ok()
    });
    let c = t1.join().ok().flatten();
    let d = t2.join().ok().flatten();
    rep.add("zstd_history_checks", 2);
    rep.add("zstd_thread_checks", 2);
    for (name, got) in [("same-thread", &a), ("after-history", &b), ("new-thread", &c), ("new-thread-with-history", &d)] {
        if got.as_ref() != Some(&reference) {
            rep.oracle_fail("zstd-context-history", &format!("{name}: frame differs from a fresh context (level {level})"), case.clone());
        }
    }
    match decompress_segment_pooled(&reference) {
        Ok(back) if back == data => {}
        _ => rep.oracle_fail("zstd-roundtrip", &format!("level {level}"), case),
    }
}

// ------------------------------------------------------------------ generators

fn gen_symbols(rng: &mut Rng, len: usize) -> Vec<u8> {
    // alphabet classes incl. the exact boundaries 3|4, 5|6, 15|16
    let top = *rng.pick(&[0u64, 1, 3, 3, 3, 4, 5, 5, 6, 7, 15, 15, 16, 30, 255]);
    let mut v: Vec<u8> = (0..len).map(|_| rng.below(top + 1) as u8).collect();
    if len > 0 && rng.chance(3, 4) {
        // make sure the maximum is really present (pins the range)
        let i = rng.below(len as u64) as usize;
        v[i] = top as u8;
    }
    v
}

fn gen_len(rng: &mut Rng, max: usize) -> usize {
    match rng.below(10) {
        0..=3 => rng.range(0, 40) as usize,
        4..=6 => rng.range(0, 2000.min(max as u64)) as usize,
        7..=8 => rng.range(0, 20000.min(max as u64)) as usize,
        _ => rng.range(0, max as u64) as usize,
    }
}

/// Sequences whose best lag-`off` match fraction is steered to a target around 1/2.
fn gen_straddle(rng: &mut Rng, max_len: usize) -> Vec<u8> {
    let off = rng.range(4, 31) as usize;
    let m = match rng.below(4) {
        0 => rng.range(1, 12) as usize,
        1 => rng.range(1, 200) as usize,
        2 => rng.range(1, 3000) as usize,
        _ => rng.range(1, max_len as u64) as usize,
    };
    let len = (off + m).min(max_len.max(off + 1));
    let m = len - off;
    // choose how many of the m compared positions shall match: around m/2
    let delta = *rng.pick(&[-4i64, -3, -2, -2, -1, -1, -1, -1, 0, 0, 0, 1, 1, 2]);
    let want = (((m as i64) + 1) / 2 + delta).clamp(0, m as i64) as usize;
    let n_sym = *rng.pick(&[4u64, 4, 4, 5, 6, 16]);
    let mut v: Vec<u8> = (0..len).map(|_| rng.below(4) as u8).collect();
    // decide matching positions
    let mut is_match = vec![false; m];
    let mut placed = 0;
    while placed < want {
        let i = rng.below(m as u64) as usize;
        if !is_match[i] {
            is_match[i] = true;
            placed += 1;
        }
    }
    for j in 0..m {
        if is_match[j] {
            v[j + off] = v[j];
        } else {
            let mut s = rng.below(n_sym) as u8;
            if s == v[j] {
                s = (s + 1) % (n_sym as u8);
            }
            v[j + off] = s;
        }
    }
    v
}

fn n_strings(alphabet: &[u8], len: usize) -> u64 {
    (alphabet.len() as u64).pow(len as u32)
}
fn nth_string(alphabet: &[u8], len: usize, v: u64) -> Vec<u8> {
    let a = alphabet.len() as u64;
    let mut x = v;
    (0..len)
        .map(|_| {
            let d = alphabet[(x % a) as usize];
            x /= a;
            d
        })
        .collect()
}

// ------------------------------------------------------------------ run

fn replay(ctx: &mut Ctx, rep: &mut Report, checked: bool, r: &Value) {
    let c = &r["case"];
    let data = unhex(c["data"].as_str().unwrap_or("-")).unwrap_or_default();
    match c["kind"].as_str().unwrap_or("tuple") {
        "tuple" => {
            let mut b = TupleBatch::new("replay");
            b.push(ctx, rep, checked, data);
            b.flush(ctx, rep, checked);
        }
        "tuple-dec" => {
            let mut b = DecBatch::new("replay");
            b.push(ctx, rep, checked, data);
            b.flush(ctx, rep, checked);
        }
        "ref" => ref_case(ctx, rep, checked, &data, "replay", true),
        "pack" => {
            let level = c["level"].as_i64().unwrap_or(17) as i32;
            pack_case(ctx, rep, checked, &data, &[level], "replay")
        }
        "dec" => dec_marker_case(ctx, rep, checked, &data, c["marker"].as_u64().unwrap_or(0) as u8, "replay"),
        _ => {
            let level = c["level"].as_i64().unwrap_or(17) as i32;
            let mut rng = Rng::new(ctx.seed, 125, 0);
            context_case(rep, &data, level, &mut rng)
        }
    }
}

pub fn run(ctx: &mut Ctx) -> Report {
    let mut rep = Report::new(
        "C12",
        "tuple codec: every string over {0..3} (len<=8), {0..5} (len<=7 quick/8 thorough), {0..15} (len<=5 quick/6 thorough), \
         {0,255} (len<=8 quick/12 thorough), then random strings to 100 kB with the maximum pinned at every range boundary \
         (model consulted up to 50 kB, oracle always); decoder also on every 1- and 2-byte string, on 3-byte strings with \
         every marker, and on random malformed strings; reference segments with the lag-k match fraction steered to \
         1/2 +- a few counts (marker vs IEEE model, integer model and an independent integer rule), both marker paths \
         round-tripped; packs at levels 1,3,9,13,17,19,22; ZSTD frames compared with a fresh context after different \
         histories and on new threads. Non-trivial = non-empty input (refs: longer than the smallest lag); distinct by \
         (kind, level, bytes)",
    );
    let checked = overflow_checked();
    rep.notes.push(format!(
        "harness arithmetic profile: {} (model asked for tuple-dec{} semantics)",
        if checked { "overflow-checked" } else { "release/wrapping" },
        if checked { "-checked" } else { "" }
    ));
    if let Some(r) = ctx.replay.clone() {
        replay(ctx, &mut rep, checked, &r);
        return rep;
    }

    // 1. exhaustive tuple codec
    let plans: Vec<(Vec<u8>, usize)> = vec![
        ((0..4).collect(), 8),
        ((0..6).collect(), ctx.t(7, 8)),
        ((0..16).collect(), ctx.t(5, 6)),
        (vec![0, 255], ctx.t(8, 12)),
        (vec![0, 15, 16], ctx.t(6, 8)),
        (vec![3, 4, 5, 6], ctx.t(5, 7)),
    ];
    let mut tb = TupleBatch::new("exhaustive");
    for (alpha, maxlen) in &plans {
        for len in 0..=*maxlen {
            for v in 0..n_strings(alpha, len) {
                tb.push(ctx, &mut rep, checked, nth_string(alpha, len, v));
            }
        }
    }
    tb.flush(ctx, &mut rep, checked);
    rep.exhaustive = true;

    // 2. random tuple codec to 100 kB
    let n_rand = ctx.t(1500, 20000);
    let mut tb = TupleBatch::new("random");
    for c in 0..n_rand {
        let mut rng = Rng::new(ctx.seed, 121, c);
        let len = gen_len(&mut rng, 100_000);
        let s = gen_symbols(&mut rng, len);
        if s.len() <= 50_000 {
            tb.push(ctx, &mut rep, checked, s);
        } else {
            rep.case(&("tuple", &s), true);
            rep.count("oracle_only_over_50k");
            count_tuple_branches(&mut rep, &s);
            tuple_oracle(&mut rep, &s, "random-large");
        }
    }
    tb.flush(ctx, &mut rep, checked);

    // 3. decoder on malformed input
    let mut db = DecBatch::new("malformed-exhaustive");
    db.push(ctx, &mut rep, checked, vec![]);
    for a in 0..=255u8 {
        db.push(ctx, &mut rep, checked, vec![a]);
    }
    for a in 0..=255u8 {
        for m in 0..=255u8 {
            db.push(ctx, &mut rep, checked, vec![a, m]);
        }
    }
    let bodies = [0u8, 1, 0x1b, 215, 216, 255];
    for &a in &bodies {
        for &b in &bodies {
            for m in 0..=255u8 {
                db.push(ctx, &mut rep, checked, vec![a, b, m]);
            }
        }
    }
    db.flush(ctx, &mut rep, checked);
    let mut db = DecBatch::new("malformed-random");
    for c in 0..ctx.t(4000, 60000) {
        let mut rng = Rng::new(ctx.seed, 122, c);
        let len = if rng.chance(1, 20) { rng.range(0, 3000) } else { rng.range(0, 24) } as usize;
        let mut ts: Vec<u8> = (0..len).map(|_| rng.below(256) as u8).collect();
        if len > 0 && rng.chance(3, 4) {
            // plausible marker: width 1..4 mostly, any trailing count
            let w = *rng.pick(&[1u8, 2, 2, 3, 3, 4, 4, 0, 5, 15]);
            ts[len - 1] = (w << 4) | rng.below(16) as u8;
        }
        db.push(ctx, &mut rep, checked, ts);
    }
    db.flush(ctx, &mut rep, checked);

    // 4. reference segments: marker choice around the threshold, both paths round-tripped
    let n_ref = ctx.t(700, 8000);
    for c in 0..n_ref {
        let mut rng = Rng::new(ctx.seed, 123, c);
        let big = rng.chance(1, 25);
        let max_len = if big { 100_000 } else { 3000 };
        let data = match rng.below(10) {
            0..=5 => gen_straddle(&mut rng, max_len),
            6 => {
                let len = gen_len(&mut rng, max_len);
                gen_symbols(&mut rng, len)
            }
            7 => {
                // periodic with a period in or near the tested lags, then noise
                let p = rng.range(1, 40) as usize;
                let len = gen_len(&mut rng, max_len);
                let unit: Vec<u8> = (0..p).map(|_| rng.below(4) as u8).collect();
                let noise_den = *rng.pick(&[0u64, 2, 3, 4, 8]);
                (0..len).map(|i| if noise_den > 0 && rng.chance(1, noise_den) { rng.below(5) as u8 } else { unit[i % p] }).collect()
            }
            8 => {
                // hardly any ACGT: cur_size tiny or zero
                let len = rng.range(0, 80) as usize;
                (0..len).map(|_| if rng.chance(1, 8) { rng.below(4) as u8 } else { *rng.pick(&[4u8, 4, 5, 15, 30]) }).collect()
            }
            _ => {
                let len = rng.range(0, 40) as usize;
                (0..len).map(|_| rng.below(4) as u8).collect()
            }
        };
        let ask = data.len() <= 50_000;
        ref_case(ctx, &mut rep, checked, &data, "ref-random", ask);
    }
    // every short string over {0,1} and {0,4}: all lengths around the smallest lags
    for alpha in [[0u8, 1], [0u8, 4]] {
        for len in 0..=ctx.t(9, 12) {
            for v in 0..n_strings(&alpha, len) {
                let s = nth_string(&alpha, len, v);
                ref_case(ctx, &mut rep, checked, &s, "ref-exhaustive", true);
            }
        }
    }

    // 5. packs at every level
    let n_pack = ctx.t(160, 2500);
    for c in 0..n_pack {
        let mut rng = Rng::new(ctx.seed, 124, c);
        let big = rng.chance(1, 16);
        let len = gen_len(&mut rng, if big { 100_000 } else { 4000 });
        let mut data = gen_symbols(&mut rng, len);
        // pack shape: LZ-ish bytes with 0xff separators
        if rng.chance(1, 2) {
            for b in data.iter_mut() {
                if rng.chance(1, 60) {
                    *b = 0xff;
                }
            }
        }
        if big {
            let lv = [*rng.pick(&LEVELS), 17];
            pack_case(ctx, &mut rep, checked, &data, &lv, "pack-random");
        } else {
            pack_case(ctx, &mut rep, checked, &data, &LEVELS, "pack-random");
        }
    }
    pack_case(ctx, &mut rep, checked, &[], &LEVELS, "pack-empty");

    // 6. decompress_segment_with_marker on arbitrary input
    for c in 0..ctx.t(600, 6000) {
        let mut rng = Rng::new(ctx.seed, 126, c);
        let marker = *rng.pick(&[0u8, 1, 1, 2, 255]);
        let compressed: Vec<u8> = match rng.below(4) {
            0 => {
                let len = rng.range(0, 30) as usize;
                (0..len).map(|_| rng.below(256) as u8).collect()
            }
            1 => {
                // a valid frame around arbitrary (mostly malformed) tuple bytes
                let len = rng.range(0, 12) as usize;
                let mut ts: Vec<u8> = (0..len).map(|_| rng.below(256) as u8).collect();
                if len > 0 && rng.chance(2, 3) {
                    ts[len - 1] = (*rng.pick(&[1u8, 2, 3, 4, 0, 9]) << 4) | rng.below(16) as u8;
                }
                fresh_ctx_compress(&ts, 3)
            }
            2 => {
                // a valid frame around valid tuples, sometimes truncated or bit-flipped
                let len = rng.range(0, 60) as usize;
                let s = gen_symbols(&mut rng, len);
                let mut f = fresh_ctx_compress(&bytes_to_tuples(&s), 13);
                if rng.chance(1, 3) && !f.is_empty() {
                    let i = rng.below(f.len() as u64) as usize;
                    f[i] ^= 1 << rng.below(8);
                }
                if rng.chance(1, 5) {
                    f.truncate(rng.below(f.len() as u64 + 1) as usize);
                }
                f
            }
            _ => vec![],
        };
        dec_marker_case(ctx, &mut rep, checked, &compressed, marker, "dec-random");
    }

    // 7a. ZSTD context-history independence after LARGE blocks: a thread that has compressed a
    // block of more than 1 MiB (a long satellite array stored as a plain reference) must produce the
    // same frames afterwards as a fresh context, in particular for data with long repeats.
    for c in 0..ctx.t(3, 24) {
        let mut rng = Rng::new(ctx.seed, 126, c);
        let big_len = rng.range(1_100_000, 2_600_000) as usize;
        let unit: Vec<u8> = (0..rng.range(2, 170)).map(|_| rng.below(4) as u8).collect();
        let big: Vec<u8> = (0..big_len).map(|i| if i % 977 == 0 { (i % 4) as u8 } else { unit[i % unit.len()] }).collect();
        // repeat-bearing follow-up blocks (tandem duplications of >= 64 symbols)
        let mut follow: Vec<Vec<u8>> = vec![];
        for f in 0..4 {
            let mut v: Vec<u8> = (0..rng.range(200, 4000)).map(|_| rng.below(4) as u8).collect();
            if f % 2 == 0 {
                // short exact copies
                let base = v.clone();
                for _ in 0..rng.range(1, 4) {
                    let a = rng.below((base.len() - 100) as u64) as usize;
                    let l = rng.range(64, (base.len() - a) as u64) as usize;
                    v.extend_from_slice(&base[a..a + l]);
                    v.extend((0..rng.range(0, 50)).map(|_| rng.below(4) as u8));
                }
            } else {
                // diverged tandem copies of a kb-scale unit (what long-distance matching picks up)
                for unit_len in [1600usize, 2000, 2400] {
                    let unit: Vec<u8> = (0..unit_len).map(|_| rng.below(4) as u8).collect();
                    for _ in 0..6 {
                        let mut c = unit.clone();
                        for _ in 0..4 {
                            let p = rng.below(unit_len as u64) as usize;
                            c[p] = (c[p] + 1 + rng.below(3) as u8) % 4;
                        }
                        v.extend_from_slice(&c);
                    }
                    v.extend((0..4000).map(|_| rng.below(4) as u8));
                }
            }
            follow.push(v);
        }
        let level = *rng.pick(&[13i32, 17, 19]);
        let case = json!({"kind": "ctx-large", "case": c, "big_len": big_len, "level": level});
        rep.case(&("ctx-large", c), true);
        rep.count("zstd_large_block_histories");
        let f2 = follow.clone();
        let got = std::thread::spawn(move || {
            let _ = compress_segment_pooled(&big, level);
            f2.iter().map(|v| compress_segment_pooled(v, level).ok()).collect::<Vec<_>>()
        })
        .join()
        .unwrap_or_default();
        for (v, g) in follow.iter().zip(got.iter()) {
            rep.count("zstd_fresh_context_comparisons");
            if g.as_ref() != Some(&fresh_ctx_compress(v, level)) {
                rep.oracle_fail("zstd-context-history", &format!("after a {big_len}-byte block on the same thread a {}-byte frame differs from a fresh context (level {level})", v.len()), case.clone());
                break;
            }
        }
    }

    // 7. ZSTD context-history independence
    for c in 0..ctx.t(60, 600) {
        let mut rng = Rng::new(ctx.seed, 125, c);
        let len = gen_len(&mut rng, 100_000);
        let data = gen_symbols(&mut rng, len);
        let level = *rng.pick(&LEVELS);
        context_case(&mut rep, &data, level, &mut rng);
    }
    rep
}
