//! C02 archives conform to the AGC v3 format: the independent Lean decoder agrees.
//!
//! For every archive of the C01 generator: the file bytes go to the Lean decoder
//! (`Model/Agc3.lean`, written from the format rules with the normative constants as literals):
//! `agc-frames` lists every ZSTD frame, the harness decompresses each with the `zstd` crate
//! directly (Lean never sees ZSTD), `agc-decode` returns the catalogue, every contig's bases, the
//! list of breached addressing rules and branch statistics. The decoder IS the oracle here:
//!  * any breached rule            -> oracle failure "addressing-rule:<rule>"
//!  * decoder != input             -> "decoder-vs-input"
//!  * decoder != ragc's own reader -> "decoder-vs-ragc"
//!  * the decoder cannot read the archive at all -> "decoder-rejects"
//! The message carries the first point of divergence.
use crate::gen::archive;
use crate::gen::genomes::Presentation;
use crate::model::{hex, unhex, Model};
use crate::props::c01;
use crate::props::guarded;
use crate::report::Report;
use crate::rng::Rng;
use crate::Ctx;
use serde_json::json;
use std::path::PathBuf;

/// archives larger than this are not handed to Lean (counted as `lean_skipped_too_big`)
pub const MAX_ARCHIVE_BYTES: usize = 300_000;

#[derive(Debug, Clone, PartialEq)]
pub struct Desc {
    pub group: u32,
    pub in_group: u32,
    pub rev: bool,
    pub raw_len: u32,
}

pub struct LeanContig {
    pub name: String,
    pub descs: Vec<Desc>,
    pub bases: Vec<u8>,
}

pub struct LeanArchive {
    pub k: u64,
    pub mm: u64,
    pub seg_size: u64,
    pub samples: Vec<(String, Vec<LeanContig>)>,
    pub violations: Vec<String>,
    pub stats: Vec<(String, u64)>,
    pub n_frames: usize,
    pub lean_ms: u128,
    /// the decompressed frames as sent to `agc-decode` (reused by `writer-check`)
    pub plains: String,
}

fn name_of(h: &str) -> Result<String, String> {
    let b = unhex(h).ok_or_else(|| format!("bad hex name {h}"))?;
    Ok(b.iter().map(|&c| c as char).collect())
}

fn parse_contig(s: &str) -> Result<LeanContig, String> {
    let f: Vec<&str> = s.split('/').collect();
    if f.len() != 3 {
        return Err(format!("bad contig field ({} parts)", f.len()));
    }
    let mut descs = vec![];
    if f[1] != "-" {
        for d in f[1].split('+') {
            let n: Vec<u64> = d.split('.').filter_map(|x| x.parse().ok()).collect();
            if n.len() != 4 {
                return Err(format!("bad descriptor {d}"));
            }
            descs.push(Desc { group: n[0] as u32, in_group: n[1] as u32, rev: n[2] == 1, raw_len: n[3] as u32 });
        }
    }
    Ok(LeanContig { name: name_of(f[0])?, descs, bases: unhex(f[2]).ok_or("bad hex bases")? })
}

fn parse_dump(reply: &str) -> Result<LeanArchive, String> {
    let w: Vec<&str> = reply.split(' ').collect();
    if w.len() != 7 || w[0] != "ok" {
        return Err(format!("unexpected reply: {}", crate::report::clip(reply)));
    }
    let num = |s: &str| s.parse::<u64>().map_err(|_| format!("bad number {s}"));
    let mut samples = vec![];
    if w[4] != "!" {
        for s in w[4].split(';') {
            let (n, cs) = s.split_once('=').ok_or("bad sample field")?;
            let mut contigs = vec![];
            if !cs.is_empty() {
                for c in cs.split(',') {
                    contigs.push(parse_contig(c)?);
                }
            }
            samples.push((name_of(n)?, contigs));
        }
    }
    let violations = if w[5] == "-" { vec![] } else { w[5].split(';').map(|s| s.to_string()).collect() };
    let mut stats = vec![];
    for kv in w[6].split(',') {
        if let Some((k, v)) = kv.split_once('=') {
            stats.push((k.to_string(), num(v)?));
        }
    }
    Ok(LeanArchive { k: num(w[1])?, mm: num(w[2])?, seg_size: num(w[3])?, samples, violations, stats, n_frames: 0, lean_ms: 0, plains: String::new() })
}

/// Run the Lean decoder on the bytes of an archive. ZSTD is done here, with the crate, frame by frame.
pub fn lean_decode(m: &mut Model, bytes: &[u8]) -> Result<LeanArchive, String> {
    let t0 = std::time::Instant::now();
    let hx = hex(bytes);
    let r = m.ask(&format!("agc-frames {hx}"));
    let fr = r.strip_prefix("ok ").ok_or_else(|| format!("agc-frames: {}", crate::report::clip(&r)))?;
    let mut plains = vec![];
    for (i, f) in fr.split(',').enumerate() {
        let fb = unhex(f).ok_or_else(|| format!("frame {i}: bad hex"))?;
        let p = zstd::decode_all(&fb[..]).map_err(|e| format!("frame {i} ({} bytes) is not a ZSTD frame: {e}", fb.len()))?;
        plains.push(hex(&p));
    }
    if let Ok(keep) = std::env::var("VERIF_C02_KEEP") {
        let _ = std::fs::write(PathBuf::from(keep).join("last_request.txt"), format!("agc-decode {hx} {}\n", plains.join(",")));
    }
    let r = m.ask(&format!("agc-decode {hx} {}", plains.join(",")));
    if !r.starts_with("ok ") {
        return Err(format!("agc-decode: {}", crate::report::clip(&r)));
    }
    let mut a = parse_dump(&r)?;
    a.n_frames = plains.len();
    a.lean_ms = t0.elapsed().as_millis();
    a.plains = plains.join(",");
    Ok(a)
}

/// `compression_level` of `StreamingQueueConfig::default()` (the C01/C02 runs do not change it).
pub fn default_level() -> i32 {
    ragc_core::StreamingQueueConfig::default().compression_level
}

fn letters_to_codes(l: &[u8]) -> Vec<u8> {
    l.iter().map(|&c| archive_letters().iter().position(|&x| x == c).unwrap_or(4) as u8).collect()
}

fn archive_letters() -> &'static [u8; 16] {
    crate::gen::genomes::LETTERS
}

/// `x<base-64 little endian>r|d` -> (group, kind)
fn parse_x_name(name: &str) -> Option<(u64, char)> {
    const D: &[u8; 64] = b"0123456789ABCDEFGHIJKLMNOPQRSTUVWXYZabcdefghijklmnopqrstuvwxyz_#";
    let b = name.as_bytes();
    if b.len() < 3 || b[0] != b'x' {
        return None;
    }
    let kind = b[b.len() - 1] as char;
    if kind != 'r' && kind != 'd' {
        return None;
    }
    let mut v: u64 = 0;
    for &c in b[1..b.len() - 1].iter().rev() {
        v = v.checked_mul(64)?.checked_add(D.iter().position(|&x| x == c)? as u64)?;
    }
    Some((v, kind))
}

/// The rows of the ZSTD oracle the archive itself cannot supply: for every segment part that was
/// stored RAW (metadata 0) the writer did run ZSTD and found the result not shorter; the reference
/// writer needs that answer to take the same branch. Computed with ragc's own entry points
/// (`compress_segment_configured`, `compress_reference_segment`) on the stored content.
fn raw_part_rows(path: &std::path::Path, level: i32) -> Result<Vec<String>, String> {
    let mut a = ragc_common::Archive::new_reader();
    a.open(path).map_err(|e| format!("open: {e:#}"))?;
    let mut out = vec![];
    for sid in 0..a.get_num_streams() {
        let name = a.get_stream_name(sid).unwrap_or("").to_string();
        let Some((g, kind)) = parse_x_name(&name) else { continue };
        for pid in 0..a.get_num_parts(sid) {
            let (data, md) = a.get_part_by_id(sid, pid).map_err(|e| format!("part {name}/{pid}: {e:#}"))?;
            if md != 0 || data.is_empty() {
                continue;
            }
            if kind == 'd' {
                let f = ragc_core::segment_compression::compress_segment_configured(&data, level).map_err(|e| format!("{e:#}"))?;
                out.push(format!("z.{level}.{}.{}", hex(&data), hex(&f)));
            } else {
                let (f, marker) = ragc_core::segment_compression::compress_reference_segment(&data).map_err(|e| format!("{e:#}"))?;
                let plain = if marker == 1 { ragc_core::tuple_packing::bytes_to_tuples(&data) } else { data.clone() };
                out.push(format!("r.{g}.{marker}.{}.{}", hex(&plain), hex(&f)));
            }
        }
    }
    Ok(out)
}

/// The reference writer of `Model/Writer.lean` against the real archive: Lean derives the
/// decisions from the decoded archive, re-writes the archive from the INPUT and compares.
/// Returns the driver's reply (`ok bytes ..`, `ok parts ..`, `diff ..`, `notok ..`, `none ..`, `err ..`).
pub fn writer_check(m: &mut Model, bytes: &[u8], plains: &str, path: &std::path::Path,
                    expect: &[(String, Vec<(String, Vec<u8>)>)]) -> Result<String, String> {
    let level = default_level();
    let input = if expect.is_empty() {
        "!".to_string()
    } else {
        expect
            .iter()
            .map(|(s, cs)| {
                let contigs: Vec<String> = cs.iter().map(|(n, l)| format!("{}/{}", hex(n.as_bytes()), hex(&letters_to_codes(l)))).collect();
                format!("{}={}", hex(s.as_bytes()), contigs.join(","))
            })
            .collect::<Vec<_>>()
            .join(";")
    };
    let rows = raw_part_rows(path, level)?;
    let extra = if rows.is_empty() { "-".to_string() } else { rows.join(",") };
    let req = format!("writer-check {} {} {} {} {}", hex(bytes), plains, level, input, extra);
    if let Ok(keep) = std::env::var("VERIF_C02_KEEP") {
        let _ = std::fs::write(PathBuf::from(keep).join("last_writer_request.txt"), format!("{req}\n"));
    }
    Ok(m.ask(&req))
}

fn first_diff_codes(a: &[u8], b: &[u8]) -> String {
    match a.iter().zip(b).position(|(x, y)| x != y) {
        Some(i) => format!("first difference at base {i}: {} vs {}", a[i], b[i]),
        None => format!("lengths {} vs {}", a.len(), b.len()),
    }
}

/// Where in the descriptor list a base position falls (for the divergence message).
fn locate(c: &LeanContig, k: u64, pos: usize) -> String {
    let mut start = 0usize;
    for (i, d) in c.descs.iter().enumerate() {
        let contrib = if i == 0 { d.raw_len as usize } else { (d.raw_len as usize).saturating_sub(k as usize) };
        if pos < start + contrib {
            return format!("segment {i} (group {} id {} rev {} raw_length {})", d.group, d.in_group, d.rev, d.raw_len);
        }
        start += contrib;
    }
    "past the last segment".to_string()
}

/// decoder vs expected letters (the input). Err = first point of divergence.
pub fn compare_input(a: &LeanArchive, expect: &[(String, Vec<(String, Vec<u8>)>)]) -> Result<(), String> {
    let dn: Vec<&String> = a.samples.iter().map(|s| &s.0).collect();
    let en: Vec<&String> = expect.iter().map(|s| &s.0).collect();
    if dn != en {
        return Err(format!("sample list: decoder {dn:?} input {en:?}"));
    }
    for (d, e) in a.samples.iter().zip(expect) {
        let dc: Vec<&String> = d.1.iter().map(|c| &c.name).collect();
        let ec: Vec<&String> = e.1.iter().map(|c| &c.0).collect();
        if dc != ec {
            return Err(format!("contig list of {}: decoder {dc:?} input {ec:?}", d.0));
        }
        for (c, ex) in d.1.iter().zip(&e.1) {
            let letters = archive::codes_to_letters(&c.bases);
            if letters != ex.1 {
                let pos = letters.iter().zip(&ex.1).position(|(x, y)| x != y).unwrap_or(letters.len().min(ex.1.len()));
                return Err(format!("sample {} contig {:?}: {} in {}", d.0, c.name, c01::first_diff(&ex.1, &letters), locate(c, a.k, pos)));
            }
        }
    }
    Ok(())
}

/// decoder vs ragc's own reader (codes).
pub fn compare_ragc(a: &LeanArchive, got: &[(String, Vec<(String, Vec<u8>)>)]) -> Result<(), String> {
    let dn: Vec<&String> = a.samples.iter().map(|s| &s.0).collect();
    let gn: Vec<&String> = got.iter().map(|s| &s.0).collect();
    if dn != gn {
        return Err(format!("sample list: decoder {dn:?} ragc {gn:?}"));
    }
    for (d, g) in a.samples.iter().zip(got) {
        let dc: Vec<&String> = d.1.iter().map(|c| &c.name).collect();
        let gc: Vec<&String> = g.1.iter().map(|c| &c.0).collect();
        if dc != gc {
            return Err(format!("contig list of {}: decoder {dc:?} ragc {gc:?}", d.0));
        }
        for (c, gx) in d.1.iter().zip(&g.1) {
            if c.bases != gx.1 {
                let pos = c.bases.iter().zip(&gx.1).position(|(x, y)| x != y).unwrap_or(c.bases.len().min(gx.1.len()));
                return Err(format!("sample {} contig {:?}: {} in {}", d.0, c.name, first_diff_codes(&c.bases, &gx.1), locate(c, a.k, pos)));
            }
        }
    }
    Ok(())
}

pub fn count_branches(rep: &mut Report, a: &LeanArchive) {
    let get = |n: &str| a.stats.iter().find(|s| s.0 == n).map(|s| s.1).unwrap_or(0);
    rep.add("lz_groups_total", get("lz_groups"));
    rep.add("raw_groups_total", get("raw_groups"));
    rep.add("segments_total", get("segments"));
    rep.add("frames_total", a.n_frames as u64);
    let flags: [(&str, bool); 14] = [
        ("branch_lz_groups", get("lz_groups") > 0),
        ("branch_raw_groups", get("raw_groups") > 0),
        ("branch_group_ge2_packs", get("groups_multi_pack") > 0),
        ("branch_raw_group_ge50_ids", get("raw_group_ge50_ids") > 0),
        ("branch_empty_delta_id0_reuse", get("empty_deltas") > 0),
        ("branch_delta_id_reuse_dedup", get("id_reuse") > 0),
        ("branch_revcomp_segments", get("revcomp_segments") > 0),
        ("branch_ref_stored_raw", get("refs_raw") > 0),
        ("branch_ref_tuple_packed", get("refs_tuple") > 0),
        ("branch_ref_plain_zstd", get("refs_plain") > 0),
        ("branch_pack_stored_raw", get("packs_raw") > 0),
        ("branch_pack_compressed", get("packs_compressed") > 0),
        ("branch_contig_ge3_segments", get("contigs_ge3_segments") > 0),
        ("branch_multi_batch_sample_table", get("batches") > 1),
    ];
    for (n, b) in flags {
        if b {
            rep.count(n);
        }
    }
    rep.add("refs_raw_total", get("refs_raw"));
    rep.add("refs_tuple_total", get("refs_tuple"));
    rep.add("refs_plain_total", get("refs_plain"));
    rep.add("packs_raw_total", get("packs_raw"));
    rep.add("packs_compressed_total", get("packs_compressed"));
    rep.add("empty_deltas_total", get("empty_deltas"));
    rep.add("revcomp_segments_total", get("revcomp_segments"));
}

pub fn rule_of(v: &str) -> &str {
    v.split(':').next().unwrap_or(v)
}

pub fn run_case(workdir: &str, seed: u64, model: &mut Option<Model>, rep: &mut Report, case: &c01::Case, tag: &str) {
    let dir = PathBuf::from(workdir).join(format!("c02_{tag}"));
    let _ = std::fs::remove_dir_all(&dir);
    let mut prng = Rng::new(seed, 101, 0);
    let inputs = c01::write_inputs(&dir, case, &mut prng, &Presentation::plain());
    let out = dir.join("out.agc");
    rep.case(&case.desc.to_string(), case.set.samples.len() >= 2);
    rep.count(if case.single_file { "mode_single_file" } else { "mode_multi_file" });
    let t_create = std::time::Instant::now();
    let created = guarded(|| archive::create_archive(&inputs, &out, &case.params));
    rep.add("create_ms_total", t_create.elapsed().as_millis() as u64);
    if std::env::var("VERIF_C02_TIMING").is_ok() {
        eprintln!("C02_TIMING tag={tag} create_ms={} samples={} threads={}", t_create.elapsed().as_millis(), case.set.samples.len(), case.params.threads);
    }
    match created {
        Err(p) => rep.notes.push(format!("create panicked (C01's business): {p}")),
        Ok(Err(e)) => {
            rep.count("create_err");
            rep.notes.push(format!("create error (not a violation): {e}"));
        }
        Ok(Ok(())) => {
            let bytes = std::fs::read(&out).unwrap_or_default();
            if let Ok(keep) = std::env::var("VERIF_C02_KEEP") {
                let _ = std::fs::write(PathBuf::from(keep).join(format!("c02_{tag}.agc")), &bytes);
            }
            rep.add("archive_bytes_total", bytes.len() as u64);
            if bytes.len() > MAX_ARCHIVE_BYTES {
                rep.count("lean_skipped_too_big");
            } else if let Some(m) = model.as_mut() {
                match lean_decode(m, &bytes) {
                    Err(e) => rep.oracle_fail("decoder-rejects", &format!("the independent decoder cannot read the archive: {e}"), case.desc.clone()),
                    Ok(a) => {
                        rep.count("decoded_by_lean");
                        rep.add("lean_ms_total", a.lean_ms as u64);
                        if a.lean_ms > 2000 {
                            rep.count("lean_slow_over_2s");
                        }
                        count_branches(rep, &a);
                        if a.k != case.params.k as u64 || a.mm != case.params.min_match_len as u64 || a.seg_size != case.params.segment_size as u64 {
                            rep.oracle_fail(
                                "decoder-vs-input",
                                &format!("params: decoder k={} mm={} seg={}, create was given k={} mm={} seg={}", a.k, a.mm, a.seg_size, case.params.k, case.params.min_match_len, case.params.segment_size),
                                case.desc.clone(),
                            );
                        }
                        for v in &a.violations {
                            rep.oracle_fail(&format!("addressing-rule:{}", rule_of(v)), &format!("format rule breached: {v}"), case.desc.clone());
                        }
                        if a.violations.is_empty() {
                            rep.count("violations_empty");
                        }
                        if let Err(msg) = compare_input(&a, &c01::expected(case)) {
                            rep.oracle_fail("decoder-vs-input", &msg, case.desc.clone());
                        } else {
                            rep.count("decoder_eq_input");
                        }
                        match guarded(|| archive::extract_all(&out)) {
                            Ok(Ok(got)) => {
                                if let Err(msg) = compare_ragc(&a, &got) {
                                    rep.oracle_fail("decoder-vs-ragc", &msg, case.desc.clone());
                                } else {
                                    rep.count("decoder_eq_ragc");
                                }
                            }
                            Ok(Err(e)) => rep.oracle_fail("decoder-vs-ragc", &format!("ragc's reader fails on an archive the decoder reads: {e}"), case.desc.clone()),
                            Err(p) => rep.oracle_fail("decoder-vs-ragc", &format!("ragc's reader panics on an archive the decoder reads: {p}"), case.desc.clone()),
                        }
                        // the reference writer (Model/Writer.lean) on the same input, with the decisions
                        // read off this archive: must reproduce the file
                        let t_w = std::time::Instant::now();
                        match writer_check(m, &bytes, &a.plains, &out, &c01::expected(case)) {
                            Err(e) => rep.notes.push(format!("writer-check not run: {e}")),
                            Ok(r) => {
                                let ms = t_w.elapsed().as_millis() as u64;
                                rep.add("writer_ms_total", ms);
                                if ms > 3000 {
                                    rep.count("writer_slow_over_3s");
                                }
                                rep.count("writer_checked");
                                if r.starts_with("ok bytes ") {
                                    rep.count("writer_bytes_identical");
                                    rep.count("writer_parts_identical");
                                } else if r.starts_with("ok parts ") {
                                    rep.count("writer_parts_identical");
                                    rep.notes.push(format!("writer: parts identical but bytes differ: {}", crate::report::clip(&r)));
                                } else if !a.violations.is_empty() {
                                    // the archive already breaches a format rule (reported above): not an
                                    // instance of the reference writer for that reason
                                    rep.count("writer_skipped_decoder_violations");
                                } else {
                                    rep.count("writer_differs");
                                    rep.disagree("writer-check: the reference writer (decisions read off the real archive) does not reproduce the real archive", case.desc.clone(), &r, "ok bytes (the real file)");
                                }
                            }
                        }
                        if rep.samples.len() < 3 {
                            rep.sample(json!({"case": case.desc, "archive_bytes": bytes.len(), "frames": a.n_frames, "lean_ms": a.lean_ms as u64,
                                "stats": a.stats.iter().map(|s| format!("{}={}", s.0, s.1)).collect::<Vec<_>>().join(",")}));
                        }
                    }
                }
            } else {
                rep.count("no_model");
            }
        }
    }
    let _ = std::fs::remove_dir_all(&dir);
}

/// Two targeted shapes the plain C01 generator rarely reaches, built with the same machinery:
///  * "many-samples": 55..70 samples of one or two moderately diverged contigs, small segments —
///    LZ groups collect more than 50 distinct deltas (>= 2 packs per delta stream) and the sample
///    table needs two 50-sample batches;
///  * "orphans": 55..62 samples with 15 contigs shorter than k each — more than 16*50 orphan
///    segments, so raw groups receive ids >= 50 (second pack, no placeholder there).
pub fn gen_variant(seed: u64, idx: u64, variant: &str) -> c01::Case {
    use crate::gen::genomes::{self, GenOpts, Sample, SampleSet};
    let mut case = c01::gen_case(seed, idx, false);
    let mut rng = Rng::new(seed, 2, idx);
    match variant {
        "many-samples" => {
            let o = GenOpts {
                n_samples: rng.range(55, 70) as usize,
                n_contigs: rng.range(1, 2) as usize,
                len_lo: 300,
                len_hi: 700,
                div_per_mille: *rng.pick(&[20u64, 50]),
                iupac: rng.chance(1, 2),
                n_runs: rng.chance(1, 2),
                revcomp: rng.chance(1, 2),
                structural: false,
                short_contigs: false,
                k: case.params.k,
                pansn: case.single_file || rng.chance(1, 2),
                descriptions: false,
            };
            case.params.segment_size = *rng.pick(&[50usize, 80, 120]);
            case.set = genomes::gen_sample_set(&mut rng, &o);
            case.desc["gen"] = json!(format!("{:?}", o));
        }
        "orphans" => {
            let k = case.params.k.max(15);
            case.params.k = k;
            let n = rng.range(55, 62) as usize;
            let samples = (0..n)
                .map(|s| {
                    let name = format!("s{:03}", s);
                    let mut contigs: Vec<(String, Vec<u8>)> = (0..15)
                        .map(|c| {
                            let len = rng.range(8, (k - 1) as u64) as usize;
                            (format!("{}#1#ctg{}", name, c), genomes::random_seq(&mut rng, len))
                        })
                        .collect();
                    // one ordinary contig so that LZ groups exist as well
                    contigs.push((format!("{}#1#long", name), genomes::random_seq(&mut rng, 200)));
                    Sample { name: format!("{}#1", name), contigs }
                })
                .collect();
            case.set = SampleSet { samples };
            case.desc["gen"] = json!(format!("orphans: {n} samples x 15 contigs of 8..{} bases + one of 200", k - 1));
        }
        "orphans-many" => {
            // ONE batch with more than 16 * 98 splitter-less records: a raw group then completes its
            // first pack (placeholder + 49) AND a second one (50, no placeholder) inside one flush
            let k = case.params.k.max(15);
            case.params.k = k;
            case.single_file = false;
            let mk = |rng: &mut Rng, name: &str, n: usize| -> Sample {
                let mut contigs: Vec<(String, Vec<u8>)> = (0..n)
                    .map(|c| {
                        let len = rng.range(1, (k - 1) as u64) as usize;
                        (format!("{}_c{}", name, c), genomes::random_seq(rng, len))
                    })
                    .collect();
                contigs.insert(0, (format!("{}_long", name), genomes::random_seq(rng, 300)));
                Sample { name: name.to_string(), contigs }
            };
            let n2 = rng.range(1600, 1750) as usize;
            let samples = vec![mk(&mut rng, "r0", 20), mk(&mut rng, "q1", n2)];
            case.set = SampleSet { samples };
            case.desc["gen"] = json!(format!("orphans-many: 2 files, the second with {n2} records of 1..{} bases", k - 1));
        }
        _ => {}
    }
    case.desc["params"] = case.params.to_json();
    case.desc["variant"] = json!(variant);
    case
}

fn case_for(seed: u64, idx: u64, big: bool, variant: &str) -> c01::Case {
    if variant.is_empty() { c01::gen_case(seed, idx, big) } else { gen_variant(seed, idx, variant) }
}

pub fn run(ctx: &mut Ctx) -> Report {
    let mut rep = Report::new(
        "C02",
        "archives of the C01 generator (same (seed,index) space, plus the targeted variants many-samples / orphans / orphans-many) \
         written by ragc, read by the independent Lean decoder; \
         a case is non-trivial when it has >= 2 samples; distinct by generator description",
    );
    if let Some(r) = ctx.replay.clone() {
        let c = &r["case"];
        let case = case_for(
            c["seed"].as_u64().unwrap_or(1),
            c["index"].as_u64().unwrap_or(0),
            c["big"].as_bool().unwrap_or(false),
            c["variant"].as_str().unwrap_or(""),
        );
        let mut m = ctx.spawn_model();
        run_case(&ctx.workdir, ctx.seed, &mut m, &mut rep, &case, "replay");
        return rep;
    }
    let n = ctx.t(24, 260);
    let (seed, workdir) = (ctx.seed, ctx.workdir.clone());
    crate::props::par_cases(ctx, &mut rep, n, 6, |m, r, i| {
        // a different slice of the generator's index space than C01's run
        let idx = 1000 + i;
        let variant = match i % 12 {
            0 => "many-samples",
            1 => "orphans",
            2 => "orphans-many",
            _ => "",
        };
        let case = case_for(seed, idx, i % 13 == 5, variant);
        run_case(&workdir, seed, m, r, &case, &format!("{i}"));
    });
    rep
}
