//! C07 range and length queries agree with full extraction.
//!
//! Archives of the C01 space (shared generator, biased to small segment sizes so that contigs have
//! many segments) are created through the library API and reopened. For every contig:
//!  * `full = get_contig`; descriptors + per-segment decoded data (re-oriented in the harness with
//!    the `reverse_complement_segment` rule) are sent to the Lean model (`range-reconstruct`,
//!    `range-length`, `range-batch`) — correspondence;
//!  * oracle: `get_contig_range(start, end)` must be the slice `[start, min(end, len))` of `full`
//!    ("range-slice"), must not panic ("range-panic"), `get_contig_length` must be `full.len()`
//!    ("length-mismatch").
//! (start, end): all pairs for contigs up to 120 (quick) / 300 (thorough) bases; for longer ones every
//! position within ±(k+1) of a segment junction as start and as end (see `junction_queries`), plus
//! start >= end, start >= length, end = usize::MAX/2, (0, length).
use crate::gen::archive;
use crate::model::{hex, nat_list, Model};
use crate::props::c01;
use crate::props::guarded;
use crate::report::Report;
use crate::rng::Rng;
use crate::Ctx;
use crate::gen::genomes::{self, GenOpts, Presentation};
use serde_json::{json, Value};
use std::path::PathBuf;

const FAR: usize = usize::MAX / 2;

/// One case in three is the C01 case of (seed, idx) unchanged. The others keep its parameters
/// (k, min-match, threads, fallback, single/multi-file mode) but use a small segment size and a
/// sample set with more contigs of moderate length (1..3000), so that one archive (whose creation
/// has a fixed cost of several level-19 ZSTD calls) yields many contigs with many segments.
pub fn gen_case(seed: u64, idx: u64) -> c01::Case {
    let mut case = c01::gen_case(seed, idx, false);
    let mut rng = Rng::new(seed, 7, idx);
    if idx % 3 != 0 {
        let ss = *rng.pick(&[12usize, 16, 20, 30, 50, 80]);
        case.params.segment_size = ss;
        let (lo, hi) = *rng.pick(&[(1usize, 120usize), (1, 300), (50, 600), (200, 3000), (1, 3000)]);
        let k = case.params.k;
        let o = GenOpts {
            n_samples: rng.range(2, 6) as usize,
            n_contigs: rng.range(3, 8) as usize,
            len_lo: lo,
            len_hi: hi,
            div_per_mille: *rng.pick(&[0u64, 1, 5, 20, 50, 100]),
            iupac: rng.chance(1, 2),
            n_runs: rng.chance(1, 2),
            revcomp: rng.chance(2, 3),
            structural: rng.chance(1, 2),
            short_contigs: rng.chance(1, 3),
            k,
            pansn: case.single_file || rng.chance(1, 4),
            descriptions: false,
        };
        case.set = genomes::gen_sample_set(&mut rng, &o);
        // exact inverted and exact plain copies of the first sample: the same stored segments are
        // then referenced in both orientations (empty LZ deltas reuse in-group id 0)
        if rng.chance(1, 2) {
            let first = case.set.samples[0].clone();
            for (tag, inv) in [("inv", true), ("cpy", false)] {
                let name = if o.pansn { format!("z{tag}#1") } else { format!("z{tag}") };
                let contigs = first
                    .contigs
                    .iter()
                    .enumerate()
                    .map(|(i, (_, seq))| {
                        let h = if o.pansn { format!("z{tag}#1#c{i}") } else { format!("z{tag}_c{i}") };
                        (h, if inv { genomes::revcomp_letters(seq) } else { seq.clone() })
                    })
                    .collect();
                case.set.samples.push(genomes::Sample { name, contigs });
            }
            case.desc["c07_inverted_copy"] = json!(true);
        }
        case.desc["params"] = case.params.to_json();
        case.desc["gen"] = json!(format!("{:?}", o));
        case.desc["c07_variant"] = json!("dense");
    }
    case
}

/// same rule as `Decompressor::reverse_complement_segment`
fn rc_codes(s: &[u8]) -> Vec<u8> {
    s.iter().rev().map(|&b| if b < 4 { 3 - b } else { b }).collect()
}

struct ContigView {
    k: usize,
    full: Vec<u8>,
    raw_lens: Vec<usize>,
    rev: Vec<bool>,
    /// oriented segment data
    data: Vec<Vec<u8>>,
    /// (seg_start, seg_end) in contig coordinates computed from the *data* lengths
    spans: Vec<(usize, usize)>,
}

impl ContigView {
    fn segs_arg(&self) -> String {
        if self.data.is_empty() {
            return "[]".into();
        }
        let v: Vec<String> = self.raw_lens.iter().zip(&self.data).map(|(r, d)| format!("{}:{}", r, hex(d))).collect();
        format!("[{}]", v.join(","))
    }
    fn junctions(&self) -> Vec<usize> {
        // interior junctions: ends of all segments but the last
        let n = self.spans.len();
        self.spans.iter().take(n.saturating_sub(1)).map(|s| s.1).collect()
    }
}

#[derive(Default)]
struct Tally {
    queries: u64,
    touch0: u64,
    touch1: u64,
    touch2: u64,
    touch3p: u64,
    start_in_overlap: u64,
    revcomp_touched: u64,
    clamped_end: u64,
    start_ge_end: u64,
    start_ge_len: u64,
    far_end: u64,
    nonempty: u64,
}

impl Tally {
    fn classify(&mut self, v: &ContigView, s: usize, e: usize) {
        self.queries += 1;
        let len = v.full.len();
        if s >= e {
            self.start_ge_end += 1;
        }
        if s >= len {
            self.start_ge_len += 1;
        }
        if e == FAR {
            self.far_end += 1;
        }
        if e > len && s < len && s < e {
            self.clamped_end += 1;
        }
        let ce = e.min(len);
        if s >= ce {
            self.touch0 += 1;
            return;
        }
        self.nonempty += 1;
        let mut touched = 0;
        let mut rev = false;
        for (i, &(a, b)) in v.spans.iter().enumerate() {
            if b > s && a < ce && b > a {
                touched += 1;
                rev |= v.rev[i];
            }
        }
        match touched {
            0 => self.touch0 += 1,
            1 => self.touch1 += 1,
            2 => self.touch2 += 1,
            _ => self.touch3p += 1,
        }
        if rev {
            self.revcomp_touched += 1;
        }
        if v.spans.iter().skip(1).any(|&(a, _)| s < a && s + v.k >= a) {
            self.start_in_overlap += 1;
        }
    }
    fn flush(&self, rep: &mut Report) {
        rep.add("queries_total", self.queries);
        rep.add("branch_query_empty_result", self.touch0);
        rep.add("branch_query_touches_1_segment", self.touch1);
        rep.add("branch_query_touches_2_segments", self.touch2);
        rep.add("branch_query_touches_3plus_segments", self.touch3p);
        rep.add("branch_query_start_in_overlap_region", self.start_in_overlap);
        rep.add("branch_query_touches_revcomp_segment", self.revcomp_touched);
        rep.add("branch_query_end_clamped", self.clamped_end);
        rep.add("branch_query_start_ge_end", self.start_ge_end);
        rep.add("branch_query_start_ge_length", self.start_ge_len);
        rep.add("branch_query_end_far_beyond", self.far_end);
        rep.add("queries_nonempty", self.nonempty);
    }
}

fn special_queries(len: usize, out: &mut Vec<(usize, usize)>) {
    out.push((0, len));
    out.push((0, FAR));
    out.push((0, len + 1));
    out.push((0, 0));
    out.push((len, len));
    out.push((len, len + 5));
    out.push((len, FAR));
    out.push((len + 1, FAR));
    out.push((FAR, FAR));
    out.push((FAR, usize::MAX));
    out.push((len / 2, len / 2));
    out.push((len / 2 + 1, len / 2));
    out.push((len / 2, FAR));
    out.push((len.saturating_sub(1), len));
    out.push((len.saturating_sub(1), FAR));
    out.push((5, 3));
}

/// Every position within ±(k+1) of every (selected) junction, as start and as end.
fn junction_queries(v: &ContigView, rng: &mut Rng, max_junctions: usize, n_random: usize, out: &mut Vec<(usize, usize)>) {
    let len = v.full.len();
    let k = v.k;
    let w = k + 1;
    let all = v.junctions();
    // selected junctions: all when few, else first, last and a random subset
    let mut sel: Vec<usize> = (0..all.len()).collect();
    if sel.len() > max_junctions {
        let mut pickd = vec![0, all.len() - 1];
        while pickd.len() < max_junctions {
            let c = rng.below(all.len() as u64) as usize;
            if !pickd.contains(&c) {
                pickd.push(c);
            }
        }
        pickd.sort();
        sel = pickd;
    }
    for &ji in &sel {
        let j = all[ji];
        let next = all.get(ji + 1).copied().unwrap_or(len);
        let next2 = all.get(ji + 2).copied().unwrap_or(len);
        let prev = if ji > 0 { all[ji - 1] } else { 0 };
        let lo = j.saturating_sub(w);
        for p in lo..=j + w {
            let d = p as i64 - j as i64;
            let shift = |x: usize| -> usize { (x as i64 + d).max(0) as usize };
            out.push((p, p + 1)); // single base, start and end both in the window
            out.push((p, j + w + 1)); // start varies, end just after the window
            out.push((lo.saturating_sub(1), p)); // end varies, start just before the window
            out.push((p, shift(next))); // a whole segment further, both ends in windows
            out.push((p, shift(next2))); // three or more segments
            out.push((shift(prev), p)); // end varies across the previous segment
        }
        out.push((j, FAR));
        out.push((j.saturating_sub(k), len));
        out.push((0, j));
        out.push((0, j + 1));
    }
    // random pairs with both ends near (any) junctions, and anywhere
    for _ in 0..n_random {
        let near = |rng: &mut Rng| -> usize {
            if all.is_empty() || rng.chance(1, 4) {
                rng.below(len as u64 + 3) as usize
            } else {
                let j = all[rng.below(all.len() as u64) as usize];
                (j + rng.below(2 * w as u64 + 1) as usize).saturating_sub(w)
            }
        };
        let a = near(rng);
        let b = near(rng);
        out.push((a.min(b), a.max(b)));
    }
}

fn check_contig(
    model: &mut Option<Model>,
    rep: &mut Report,
    d: &mut ragc_core::Decompressor,
    case_desc: &Value,
    k: usize,
    sample: &str,
    contig: &str,
    exhaustive_max: usize,
    max_junctions: usize,
    seed: u64,
    cidx: u64,
) {
    let cj = |extra: Value| -> Value {
        let mut c = case_desc.clone();
        c["sample"] = json!(sample);
        c["contig"] = json!(contig);
        c["query"] = extra;
        c
    };
    let full = match guarded(|| d.get_contig(sample, contig)) {
        Ok(Ok(f)) => f,
        Ok(Err(e)) => {
            rep.count("full_extract_err");
            rep.notes.push(format!("get_contig({sample},{contig}) failed (C16 territory, skipped): {e:#}"));
            return;
        }
        Err(p) => {
            rep.count("full_extract_panic");
            rep.notes.push(format!("get_contig({sample},{contig}) panicked (C16 territory, skipped): {p}"));
            return;
        }
    };
    let descs = match guarded(|| d.get_contig_segments_desc(sample, contig)) {
        Ok(Ok(x)) => x,
        other => {
            rep.count("desc_unavailable");
            rep.notes.push(format!("descriptors of {sample}/{contig} unavailable: {:?}", other.map(|r| r.map(|v| v.len()).map_err(|e| format!("{e:#}")))));
            return;
        }
    };
    let mut data = vec![];
    for desc in &descs {
        match guarded(|| d.get_segment_data_by_desc(desc)) {
            Ok(Ok(x)) => {
                if desc.is_rev_comp {
                    // orientation fix: the harness rule and the Lean `reverseComplementSegment` must agree;
                    // both are tied to the real (private) function by the reconstruct correspondence below
                    let o = rc_codes(&x);
                    if let Some(m) = model.as_mut() {
                        let ans = m.ask(&format!("range-rc {}", hex(&x)));
                        let imp = format!("ok {}", hex(&o));
                        if ans != imp {
                            rep.disagree("rc-segment", cj(json!("rc")), &ans, &imp);
                        }
                    }
                    rep.count("segments_revcomp");
                    data.push(o);
                } else {
                    rep.count("segments_forward");
                    data.push(x);
                }
            }
            _ => {
                rep.count("segment_unavailable");
                return;
            }
        }
    }
    let raw_lens: Vec<usize> = descs.iter().map(|s| s.raw_length as usize).collect();
    let mut spans = vec![];
    let mut pos = 0usize;
    for (i, dd) in data.iter().enumerate() {
        let c = if i == 0 { dd.len() } else { dd.len().saturating_sub(k) };
        spans.push((pos, pos + c));
        pos += c;
    }
    let v = ContigView { k, full, raw_lens, rev: descs.iter().map(|s| s.is_rev_comp).collect(), data, spans };
    let len = v.full.len();
    let nseg = v.data.len();
    rep.case(&format!("{}|{}|{}", case_desc, sample, contig), nseg >= 2);
    rep.count(match nseg {
        0 => "contig_segments_0",
        1 => "contig_segments_1",
        2 => "contig_segments_2",
        3..=9 => "contig_segments_3_9",
        _ => "contig_segments_10plus",
    });
    if v.rev.iter().any(|&r| r) {
        rep.count("contig_has_revcomp_segment");
    }
    // well-formedness the theorems assume, observed on the real archive
    let wf_raw = v.raw_lens.iter().zip(&v.data).all(|(r, d)| *r == d.len());
    let wf_k = v.data.iter().skip(1).all(|d| d.len() >= k);
    if !wf_raw {
        rep.count("wf_rawlen_ne_datalen");
        rep.notes.push(format!("{sample}/{contig}: raw_length differs from decoded length: {:?} vs {:?}",
            v.raw_lens, v.data.iter().map(|d| d.len()).collect::<Vec<_>>()));
    }
    if !wf_k {
        rep.count("wf_later_segment_shorter_than_k");
    }
    if wf_raw && wf_k {
        rep.count("wf_holds");
    }
    let segs_arg = v.segs_arg();

    // ---- reconstruct: model on the decoded segments vs get_contig
    if let Some(m) = model.as_mut() {
        let ans = m.ask(&format!("range-reconstruct {} {}", k, segs_arg));
        let imp = format!("ok {}", hex(&v.full));
        if ans != imp {
            rep.disagree("reconstruct", cj(json!("reconstruct")), &ans, &imp);
        }
    }

    // ---- length
    match guarded(|| d.get_contig_length(sample, contig)) {
        Err(p) => rep.oracle_fail("length-mismatch", &format!("get_contig_length({sample},{contig}) panicked: {p}"), cj(json!("length"))),
        Ok(Err(e)) => rep.oracle_fail("length-mismatch", &format!("get_contig_length({sample},{contig}) failed: {e:#}"), cj(json!("length"))),
        Ok(Ok(n)) => {
            if n != len {
                rep.oracle_fail(
                    "length-mismatch",
                    &format!("get_contig_length({sample},{contig}) = {n} but the fully extracted contig has {len} bases"),
                    cj(json!("length")),
                );
            }
            if let Some(m) = model.as_mut() {
                let ans = m.ask(&format!("range-length {} {}", k, nat_list(&v.raw_lens)));
                let imp = format!("ok {}", n);
                if ans != imp {
                    rep.disagree("length", cj(json!("length")), &ans, &imp);
                }
            }
        }
    }

    // ---- range queries
    let mut qs: Vec<(usize, usize)> = vec![];
    special_queries(len, &mut qs);
    if len <= exhaustive_max {
        rep.count("contig_exhaustive_pairs");
        for s in 0..=len + 2 {
            for e in 0..=len + 2 {
                qs.push((s, e));
            }
            qs.push((s, FAR));
        }
    } else {
        rep.count("contig_junction_pairs");
        let mut rng = Rng::new(seed, 71, cidx);
        junction_queries(&v, &mut rng, max_junctions, 200, &mut qs);
    }
    let mut tally = Tally::default();
    let t_q = std::time::Instant::now();
    let mut impl_answers: Vec<Option<Vec<u8>>> = Vec::with_capacity(qs.len());
    for &(s, e) in &qs {
        tally.classify(&v, s, e);
        let expect: &[u8] = {
            let ce = e.min(len);
            if s >= ce { &[] } else { &v.full[s..ce] }
        };
        match guarded(|| d.get_contig_range(sample, contig, s, e)) {
            Err(p) => {
                rep.oracle_fail("range-panic", &format!("get_contig_range({sample},{contig},{s},{e}) panicked: {p}"), cj(json!({"start": s, "end": e})));
                impl_answers.push(None);
            }
            Ok(Err(er)) => {
                rep.oracle_fail("range-slice", &format!("get_contig_range({sample},{contig},{s},{e}) failed: {er:#}"), cj(json!({"start": s, "end": e})));
                impl_answers.push(None);
            }
            Ok(Ok(got)) => {
                if got != expect {
                    rep.oracle_fail(
                        "range-slice",
                        &format!(
                            "get_contig_range({sample},{contig},{s},{e}) returned {} bases, the slice of the full contig (length {len}) has {}: {}",
                            got.len(),
                            expect.len(),
                            c01::first_diff(expect, &got)
                        ),
                        cj(json!({"start": s, "end": e})),
                    );
                }
                impl_answers.push(Some(got));
            }
        }
    }
    tally.flush(rep);
    rep.add("time_ms_real_queries", t_q.elapsed().as_millis() as u64);
    let t_m = std::time::Instant::now();
    if let Some(m) = model.as_mut() {
        for (chunk_q, chunk_a) in qs.chunks(1500).zip(impl_answers.chunks(1500)) {
            let flat: Vec<usize> = chunk_q.iter().flat_map(|&(s, e)| [s, e]).collect();
            let ans = m.ask(&format!("range-batch {} {} {}", k, segs_arg, nat_list(&flat)));
            let parts: Vec<&str> = ans.split(' ').collect();
            if parts.first() != Some(&"ok") || parts.len() != chunk_q.len() + 1 {
                rep.disagree("range-batch", cj(json!({"batch": chunk_q.len()})), &ans, "ok <answers>");
                continue;
            }
            for (i, (&(s, e), a)) in chunk_q.iter().zip(chunk_a).enumerate() {
                let imp = match a {
                    Some(x) => hex(x),
                    None => "!".to_string(),
                };
                if parts[i + 1] != imp {
                    rep.disagree("range", cj(json!({"start": s, "end": e})), parts[i + 1], &imp);
                }
            }
        }
    }
    rep.add("time_ms_model_queries", t_m.elapsed().as_millis() as u64);
    if rep.samples.len() < 4 && nseg >= 3 {
        rep.sample(json!({"case": case_desc, "sample": sample, "contig": contig, "length": len, "segments": nseg,
            "raw_lengths": v.raw_lens.iter().take(12).collect::<Vec<_>>(), "rev_comp": v.rev.iter().take(12).collect::<Vec<_>>(),
            "queries": qs.len()}));
    }
}

pub fn run_case(workdir: &str, seed: u64, model: &mut Option<Model>, rep: &mut Report, case: &c01::Case, tag: &str, exhaustive_max: usize, max_junctions: usize) {
    let dir = PathBuf::from(workdir).join(format!("c07_{tag}"));
    let _ = std::fs::remove_dir_all(&dir);
    let mut prng = Rng::new(seed, 107, 0);
    let inputs = c01::write_inputs(&dir, case, &mut prng, &Presentation::plain());
    let out = dir.join("out.agc");
    rep.count("archives_attempted");
    let t_c = std::time::Instant::now();
    let created = guarded(|| archive::create_archive(&inputs, &out, &case.params));
    rep.add("time_ms_create", t_c.elapsed().as_millis() as u64);
    match created {
        Err(p) => {
            rep.count("create_panic_skipped");
            rep.notes.push(format!("create panicked (not C07, skipped): {p}"));
        }
        Ok(Err(e)) => {
            rep.count("create_err_skipped");
            rep.notes.push(format!("create error (not a violation): {e}"));
        }
        Ok(Ok(())) => match archive::open(&out) {
            Err(e) => {
                rep.count("open_err_skipped");
                rep.notes.push(format!("open failed (not C07, skipped): {e}"));
            }
            Ok(mut d) => {
                rep.count("archives_checked");
                let mut cidx = 0u64;
                for s in d.list_samples() {
                    let contigs = match guarded(|| d.list_contigs(&s)) {
                        Ok(Ok(c)) => c,
                        _ => {
                            rep.count("list_contigs_failed");
                            continue;
                        }
                    };
                    for c in contigs {
                        cidx += 1;
                        check_contig(model, rep, &mut d, &case.desc, case.params.k, &s, &c, exhaustive_max, max_junctions, seed, cidx);
                    }
                }
                interleaved_queries(rep, &mut d, &case.desc, seed);
            }
        },
    }
    let _ = std::fs::remove_dir_all(&dir);
}

/// Range queries ALTERNATING between contigs (of different samples) on the same handle: the answer
/// for a contig must not depend on which contig was queried just before (contigs can share stored
/// segments, also in opposite orientations).
fn interleaved_queries(rep: &mut Report, d: &mut ragc_core::Decompressor, desc: &serde_json::Value, seed: u64) {
    let mut all: Vec<(String, String, Vec<u8>)> = vec![];
    for s in d.list_samples() {
        if let Ok(Ok(cs)) = guarded(|| d.get_sample(&s)) {
            for (c, data) in cs {
                if !data.is_empty() {
                    all.push((s.clone(), c, data));
                }
            }
        }
    }
    if all.len() < 2 {
        return;
    }
    let mut rng = Rng::new(seed, 207, all.len() as u64);
    let rounds = 400.min(40 * all.len());
    let mut prev = usize::MAX;
    for _ in 0..rounds {
        // prefer switching between contigs of equal length (copies / inverted copies)
        let mut i = rng.below(all.len() as u64) as usize;
        if prev != usize::MAX && rng.chance(2, 3) {
            let same: Vec<usize> = (0..all.len()).filter(|&j| j != prev && all[j].2.len() == all[prev].2.len()).collect();
            if !same.is_empty() {
                i = *rng.pick(&same);
            }
        }
        let (s, c, full) = &all[i];
        let len = full.len();
        let a = rng.below(len as u64) as usize;
        let b = (a + 1 + rng.below(((len - a) as u64).min(200)) as usize).min(len);
        rep.count("interleaved_queries");
        match guarded(|| d.get_contig_range(s, c, a, b)) {
            Ok(Ok(got)) => {
                if got != full[a..b] {
                    let case = json!({"case": desc, "sample": s, "contig": c, "start": a, "end": b, "after": if prev == usize::MAX { json!(null) } else { json!([all[prev].0, all[prev].1]) }});
                    rep.oracle_fail("range-slice-interleaved", &format!("get_contig_range({s},{c},{a},{b}) issued after a query on another contig differs from the slice of the full contig: {}", c01::first_diff(&full[a..b], &got)), case);
                    return;
                }
            }
            Ok(Err(e)) => {
                rep.oracle_fail("range-error", &format!("get_contig_range({s},{c},{a},{b}) failed: {e:#}"), json!({"case": desc}));
                return;
            }
            Err(p) => {
                rep.oracle_fail("range-panic", &format!("get_contig_range({s},{c},{a},{b}) panicked: {p}"), json!({"case": desc}));
                return;
            }
        }
        prev = i;
    }
}

pub fn run(ctx: &mut Ctx) -> Report {
    let mut rep = Report::new(
        "C07",
        "archives of the C01 generator (1/3 unchanged C01 cases, 2/3 with segment size 12..80 and 3..8 contigs of 1..3000 bases per sample so that contigs have many segments), every contig of every \
         sample; per contig: all (start,end) in [0,len+2]^2 plus end=usize::MAX/2 when len <= 120 (quick) / 300 (thorough), else \
         every position within +-(k+1) of every selected junction as start and as end (6 pairings each) plus 200 random pairs, plus \
         start>=end, start>=length, far end; a case is one contig, non-trivial when it has >= 2 segments",
    );
    let exhaustive_max = ctx.t(120usize, 300usize);
    let max_junctions = ctx.t(8usize, 24usize);
    if let Some(r) = ctx.replay.clone() {
        let c = &r["case"];
        let case = gen_case(c["seed"].as_u64().unwrap_or(1), c["index"].as_u64().unwrap_or(0));
        let mut m = ctx.spawn_model();
        run_case(&ctx.workdir, ctx.seed, &mut m, &mut rep, &case, "replay", exhaustive_max, max_junctions);
        return rep;
    }
    let n = ctx.t(18, 150);
    let (seed, workdir) = (ctx.seed, ctx.workdir.clone());
    crate::props::par_cases(ctx, &mut rep, n, 6, |m, r, i| {
        let case = gen_case(seed, i);
        run_case(&workdir, seed, m, r, &case, &format!("{i}"), exhaustive_max, max_junctions);
    });
    rep
}
