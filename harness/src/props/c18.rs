//! C18 behaviour independent of integer-overflow checking: the C01 / C04 case streams (library
//! driving exactly as main.rs) are run by this release-profile harness and by the overflow-checked
//! harness (profile "checked" = dev/test arithmetic: overflow checks + debug assertions); archives
//! must be byte-identical, extractions equal, and no arithmetic-overflow panic may occur. The CLI is
//! run in both profiles on flag/argument cases (thread counts, queue capacities, single-file mode).
use crate::gen::archive;
use crate::gen::genomes::Presentation;
use crate::props::c01::{self, Case};
use crate::props::{c04, guarded_loc};
use crate::report::Report;
use crate::rng::Rng;
use crate::Ctx;
use serde_json::{json, Value};
use std::path::PathBuf;

const DEV: bool = cfg!(debug_assertions);

fn case_of(seed: u64, i: u64) -> (Case, &'static str) {
    // two thirds C01 space, one third C04 space (single-file with sync rounds / multi-file)
    if i % 3 == 2 {
        (c04::gen_case(seed, 18_000 + i), "c04")
    } else {
        (c01::gen_case(seed, 18_000 + i, false), "c01")
    }
}

/// What one profile observes for one case.
fn observe(workdir: &str, seed: u64, i: u64) -> Value {
    let (mut case, space) = case_of(seed, i);
    case.params.threads = case.params.threads.min(4);
    let dir = PathBuf::from(workdir).join(format!("c18_{}_{i}", std::process::id()));
    let _ = std::fs::remove_dir_all(&dir);
    let mut prng = Rng::new(seed, 118, i);
    let inputs = c01::write_inputs(&dir, &case, &mut prng, &Presentation::plain());
    let out = dir.join("out.agc");
    // create on its own thread under a watchdog: an arithmetic panic inside a worker thread leaves
    // the other workers at the barrier and the producer blocked — the run never returns
    let created = {
        let (tx, rx) = std::sync::mpsc::channel();
        let (inputs2, out2, params2) = (inputs.clone(), out.clone(), case.params.clone());
        std::thread::spawn(move || {
            let r = guarded_loc(|| archive::create_archive(&inputs2, &out2, &params2));
            let _ = tx.send(r);
        });
        match rx.recv_timeout(std::time::Duration::from_secs(300)) {
            Ok(r) => r,
            Err(_) => {
                let loc = crate::props::LAST_PANIC_LOC.lock().map(|g| g.clone()).unwrap_or_default();
                Err(format!("create did not return within 300 s (hang; last panic location seen in this process: {loc})"))
            }
        }
    };
    let mut v = json!({"index": i, "space": space, "single_file": case.single_file,
        "contigs": case.set.samples.iter().map(|s| s.contigs.len()).sum::<usize>()});
    match created {
        Err(p) => v["create"] = json!(format!("panic {p}")),
        Ok(Err(e)) => v["create"] = json!(format!("err {e}")),
        Ok(Ok(())) => {
            v["create"] = json!("ok");
            v["archive_sha"] = json!(c04::sha(&out));
            match guarded_loc(|| archive::extract_all(&out)) {
                Err(p) => v["extract"] = json!(format!("panic {p}")),
                Ok(Err(e)) => v["extract"] = json!(format!("err {e}")),
                Ok(Ok(all)) => {
                    use sha2::{Digest, Sha256};
                    let mut h = Sha256::new();
                    for (s, cs) in &all {
                        h.update(s.as_bytes());
                        h.update([0]);
                        for (c, d) in cs {
                            h.update(c.as_bytes());
                            h.update([0]);
                            h.update(d);
                            h.update([255]);
                        }
                    }
                    v["extract"] = json!(format!("ok {:x}", h.finalize()));
                    // length / range queries on the first contig (raw_length - k sites)
                    let q = guarded_loc(|| {
                        let mut d = archive::open(&out)?;
                        let mut acc = vec![];
                        for (s, cs) in all.iter().take(2) {
                            for (c, data) in cs.iter().take(3) {
                                let l = d.get_contig_length(s, c).map_err(|e| format!("{e:#}"))?;
                                let r = d.get_contig_range(s, c, data.len() / 3, data.len()).map_err(|e| format!("{e:#}"))?;
                                acc.push((l, r.len()));
                            }
                        }
                        Ok::<_, String>(acc)
                    });
                    v["queries"] = json!(format!("{q:?}"));
                }
            }
        }
    }
    let _ = std::fs::remove_dir_all(&dir);
    v
}

fn is_arith(msg: &str) -> bool {
    msg.contains("overflow") || msg.contains("attempt to") || msg.contains("out of range for")
}

fn run_cli(bin: &str, args: &[String]) -> (i32, String) {
    // under a timeout: a worker that panics (overflow check) leaves the pipeline hanging
    let binp = std::path::Path::new(bin);
    let mut r = crate::gen::cli::Run::new(binp, &[]).timeout_s(240);
    r.args = args.to_vec();
    let o = r.run();
    let err = String::from_utf8_lossy(&o.stderr).to_string();
    let interesting: Vec<&str> = err.lines().filter(|l| l.contains("panicked") || l.contains("overflow") || l.starts_with("Error")).collect();
    if o.timed_out {
        return (-3, format!("did not exit within 240 s (hang) | {}", interesting.join(" | ")));
    }
    (o.code.unwrap_or(-1), interesting.join(" | "))
}

/// CLI in both profiles: same exit class, same archive bytes, no arithmetic panic.
fn cli_leg(ctx: &Ctx, rep: &mut Report) {
    let (Ok(rel), Ok(dbg)) = (std::env::var("VERIF_RAGC"), std::env::var("VERIF_RAGC_DEBUG")) else {
        rep.notes.push("CLI binaries not provided; CLI leg skipped".into());
        return;
    };
    let dir = PathBuf::from(&ctx.workdir).join("c18_cli");
    let _ = std::fs::remove_dir_all(&dir);
    std::fs::create_dir_all(&dir).unwrap();
    // one single-file input with >= 50 contigs (sync rounds), one multi-file input
    // small inputs: the dev-profile binary is unoptimised
    let tiny = |idx: u64, single_file: bool| {
        let mut c = c04::gen_case(ctx.seed, idx);
        let mut rng = Rng::new(ctx.seed, 318, idx);
        let o = crate::gen::genomes::GenOpts {
            n_samples: 2, n_contigs: if single_file { 28 } else { 3 }, len_lo: 100, len_hi: 220, div_per_mille: 20,
            iupac: true, n_runs: true, revcomp: true, structural: false, short_contigs: true, k: 15, pansn: single_file, descriptions: false,
        };
        c.set = crate::gen::genomes::gen_sample_set(&mut rng, &o);
        c.single_file = single_file;
        c
    };
    let single = tiny(18_900, true);
    let multi = tiny(18_901, false);
    let mut prng = Rng::new(ctx.seed, 218, 0);
    let sdir = dir.join("single");
    let mdir = dir.join("multi");
    let sin = c01::write_inputs(&sdir, &single, &mut prng, &Presentation::plain());
    let min = c01::write_inputs(&mdir, &multi, &mut prng, &Presentation::plain());
    let mut cases: Vec<(String, Vec<String>)> = vec![];
    let files = |v: &[PathBuf]| v.iter().map(|p| p.to_string_lossy().to_string()).collect::<Vec<_>>();
    for (name, ins) in [("single", files(&sin)), ("multi", files(&min))] {
        let extras: Vec<Vec<&str>> = if name == "single" {
            vec![vec!["-t", "3"], vec!["-t", "2", "--queue-capacity", "100"], vec!["-t", "2", "--queue-capacity", "17179869184G"]]
        } else {
            vec![vec!["-t", "1"], vec!["-t", "2", "--queue-capacity", "1M"], vec!["-t", "2", "--queue-capacity", "20000000000G"]]
        };
        for extra in extras {
            let mut a = vec!["create".to_string(), "-v".into(), "0".into(), "-k".into(), "15".into(), "-s".into(), "60".into()];
            a.extend(extra.iter().map(|s| s.to_string()));
            cases.push((format!("{name} {}", extra.join(" ")), [a, ins.clone()].concat()));
        }
    }
    for (ci, (label, args)) in cases.iter().enumerate() {
        let mut res = vec![];
        for (pname, bin) in [("release", &rel), ("dev", &dbg)] {
            let out = dir.join(format!("o_{ci}_{pname}.agc"));
            let mut a = args.clone();
            a.insert(1, out.to_string_lossy().to_string());
            a.insert(1, "-o".into());
            let (code, msg) = run_cli(bin, &a);
            let sha = if out.exists() { c04::sha(&out) } else { "-".into() };
            res.push((pname, code, msg, sha));
            let _ = std::fs::remove_file(&out);
        }
        rep.case(&("cli", label), true);
        rep.count("cli_cases");
        let case = json!({"cli": label, "args": args});
        for (pname, code, msg, _) in &res {
            if *code == -3 {
                rep.oracle_fail("profile-cli-hang", &format!("{pname} CLI: {msg}"), case.clone());
            } else if *code == 101 || is_arith(msg) {
                rep.oracle_fail("profile-cli-panic", &format!("{pname} CLI: exit {code}: {msg}"), case.clone());
            }
        }
        let (r, d) = (&res[0], &res[1]);
        if (r.1 == 0) != (d.1 == 0) {
            rep.oracle_fail("profile-cli-exit-differs", &format!("release exit {} ({}), dev exit {} ({})", r.1, r.2, d.1, d.2), case.clone());
        } else if r.1 == 0 && r.3 != d.3 {
            rep.oracle_fail("profile-cli-archive-differs", &format!("release sha {} dev sha {}", r.3, d.3), case.clone());
        }
        if rep.samples.len() < 5 && ci % 5 == 0 {
            rep.sample(json!({"cli": label, "release": {"exit": r.1, "sha": r.3}, "dev": {"exit": d.1, "sha": d.3}}));
        }
    }
    let _ = std::fs::remove_dir_all(&dir);
}

pub fn run(ctx: &mut Ctx) -> Report {
    let mut rep = Report::new(
        "C18",
        "C01-space and C04-space cases (library driving as main.rs) run under the release profile and under the overflow-checked \
         profile; CLI flag cases under both CLI builds; a case is non-trivial when create succeeded in the release profile; distinct by case index",
    );
    let n = ctx.t(10, 150);
    let child_mode = std::env::var("VERIF_C18_CHILD").is_ok();
    let idxs: Vec<u64> = match &ctx.replay {
        Some(r) => vec![r["case"]["index"].as_u64().unwrap_or(0)],
        // corpus of past failures first: C01-space cases 67 and 139 (k = 32 with fallback minimizers:
        // `1u64 << (2 * k)` in the fallback k-mer scan, defect D14) — then the stream
        None => {
            let mut v: Vec<u64> = vec![67, 139];
            v.extend((0..n).filter(|i| *i != 67 && *i != 139));
            v
        }
    };
    // this profile's observations, in parallel
    let results = std::sync::Mutex::new(std::collections::BTreeMap::<u64, Value>::new());
    let (seed, workdir) = (ctx.seed, ctx.workdir.clone());
    let next = std::sync::atomic::AtomicUsize::new(0);
    std::thread::scope(|sc| {
        for _ in 0..5 {
            sc.spawn(|| loop {
                let k = next.fetch_add(1, std::sync::atomic::Ordering::SeqCst);
                if k >= idxs.len() {
                    break;
                }
                let v = observe(&workdir, seed, idxs[k]);
                results.lock().unwrap().insert(idxs[k], v);
            });
        }
    });
    let mine = results.into_inner().unwrap();
    if child_mode {
        // report raw observations to the parent
        let path = std::env::var("VERIF_C18_RESULTS").unwrap_or_default();
        let _ = std::fs::write(&path, serde_json::to_string(&mine.values().collect::<Vec<_>>()).unwrap());
        rep.evaluations = mine.len() as u64;
        return rep;
    }
    // the other profile
    let mut theirs = std::collections::BTreeMap::<u64, Value>::new();
    match std::env::var("VERIF_HARNESS_CHECKED") {
        Ok(bin) if std::path::Path::new(&bin).exists() && !DEV => {
            let resf = format!("{}/c18_child.json", ctx.workdir);
            let work = format!("{}/c18_child", ctx.workdir);
            let _ = std::fs::create_dir_all(&work);
            let mut cmd = std::process::Command::new(&bin);
            cmd.args(["C18", "--tier", if ctx.tier == crate::Tier::Quick { "quick" } else { "thorough" }, "--seed", &ctx.seed.to_string(),
                "--model", "none", "--out", &format!("{}/c18_child_report.json", ctx.workdir), "--workdir", &work])
                .env("VERIF_C18_CHILD", "1")
                .env("VERIF_C18_RESULTS", &resf)
                .stderr(std::process::Stdio::null())
                .stdout(std::process::Stdio::null());
            if let Some(r) = &ctx.replay {
                let rp = format!("{}/c18_child_replay.json", ctx.workdir);
                let _ = std::fs::write(&rp, r.to_string());
                cmd.args(["--replay", &rp]);
            }
            let st = cmd.status();
            let txt = std::fs::read_to_string(&resf).unwrap_or_default();
            match serde_json::from_str::<Vec<Value>>(&txt) {
                Ok(vs) => {
                    for v in vs {
                        theirs.insert(v["index"].as_u64().unwrap_or(0), v);
                    }
                }
                Err(_) => rep.disagree("checked-profile-leg", json!({"bin": bin}), "observations", &format!("child produced none (status {st:?})")),
            }
            let _ = std::fs::remove_dir_all(&work);
        }
        _ => rep.notes.push("overflow-checked harness not provided: only the release profile was run".into()),
    }
    for (i, r) in &mine {
        let ok = r["create"] == "ok";
        rep.case(i, ok);
        rep.count(&format!("space_{}", r["space"].as_str().unwrap_or("?")));
        if r["single_file"] == true && r["contigs"].as_u64().unwrap_or(0) >= 50 {
            rep.count("branch_single_file_sync_rounds");
        }
        let case = json!({"index": i});
        for (pname, v) in [("release", Some(r)), ("checked", theirs.get(i))] {
            let Some(v) = v else { continue };
            for key in ["create", "extract", "queries"] {
                let s = v[key].as_str().unwrap_or("");
                if s.starts_with("panic") || s.contains("panic") || s.contains("did not return") {
                    let sig = if s.contains("did not return") { "profile-hang" } else if is_arith(s) { "profile-overflow-panic" } else { "profile-panic" };
                    rep.oracle_fail(sig, &format!("{pname} profile, {key}: {s}"), case.clone());
                }
            }
        }
        if let Some(c) = theirs.get(i) {
            rep.count("cases_in_both_profiles");
            if r["create"].as_str().map(|s| &s[..2.min(s.len())]) != c["create"].as_str().map(|s| &s[..2.min(s.len())]) {
                rep.oracle_fail("profile-create-differs", &format!("release: {} checked: {}", r["create"], c["create"]), case.clone());
            } else if ok {
                if r["archive_sha"] != c["archive_sha"] {
                    rep.oracle_fail("profile-archive-differs", &format!("release sha {} checked sha {}", r["archive_sha"], c["archive_sha"]), case.clone());
                }
                if r["extract"] != c["extract"] {
                    rep.oracle_fail("profile-extract-differs", &format!("release {} checked {}", r["extract"], c["extract"]), case.clone());
                }
                if r["queries"] != c["queries"] {
                    rep.oracle_fail("profile-queries-differ", &format!("release {} checked {}", r["queries"], c["queries"]), case.clone());
                }
            }
            if rep.samples.len() < 3 {
                rep.sample(json!({"release": r, "checked": c}));
            }
        }
    }
    if ctx.replay.is_none() {
        cli_leg(ctx, &mut rep);
    }
    rep
}
