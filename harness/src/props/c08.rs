//! C08 reader answers do not depend on query history or on other readers.
//!
//! Archives: a two-batch one (51..58 samples, tiny contigs: the reader loads the contig metadata in
//! batches of 50 samples), small ones with a sample whose contigs are all shorter than k (raw
//! groups only), one with long segments (references stored ZSTD-compressed) and C01 cases.
//!
//! For every archive the **abstract archive content** of Model/ReaderState.lean is measured through
//! a fresh handle per item (sample list, per sample the contig list, per contig the descriptors,
//! per group the reference, per (group, in-group id) the decoded segment, the stream table) and an
//! operation alphabet is derived: every public query method x {existing, unknown} arguments (sample
//! from metadata batch 0 / batch 1 / unknown; contig existing / unknown / existing in another
//! sample; range inside / beyond the end / start >= end (known and unknown contig); descriptors
//! raw / LZ reference / LZ delta / unknown group / in-group id out of range; group ids raw / LZ /
//! unknown; prefixes matching some / none).
//!
//! Histories: ALL sequences up to length 3 over the core alphabet (one operation per argument class),
//! all sequences up to length 2 over the full alphabet (thorough: length 3 on the first two-batch
//! archive), random ones up to length 30 with random arguments. Per operation of a history:
//!  * oracle: canonical result on the history handle == the same operation on a fresh handle
//!    ("history-dependent"); a panic is "reader-panic";
//!  * correspondence: the whole history through `rd-run` (the state machine `step`) — result by
//!    result; every fresh answer through `rd-answer` (the specification `answer`).
//! Clones: a handle with a random history is cloned (`clone_for_thread`) four times, the clones run
//! random operations in four threads concurrently while the original keeps answering; every answer
//! must be the fresh-handle answer ("clone-dependent"); the per-handle logs, merged round-robin,
//! go through `rd-sys`.
use crate::gen::archive::{self, Params};
use crate::gen::genomes::{self, GenOpts, Presentation, Sample};
use crate::model::{hex, nat_list, Model};
use crate::props::c01;
use crate::props::guarded;
use crate::report::Report;
use crate::rng::Rng;
use crate::Ctx;
use ragc_core::Decompressor;
use serde_json::{json, Value};
use std::collections::{BTreeMap, BTreeSet, HashMap};
use std::path::{Path, PathBuf};
use std::sync::atomic::{AtomicU64, Ordering};

// ------------------------------------------------------------------ canonical results

fn mix(h: u64, w: u64) -> u64 {
    (h ^ w).wrapping_mul(1099511628211)
}

fn digest(ws: &[u64]) -> u64 {
    ws.iter().fold(14695981039346656037u64, |h, &w| mix(h, w))
}

fn w_bytes(out: &mut Vec<u64>, b: &[u8]) {
    out.push(b.len() as u64);
    out.extend(b.iter().map(|&x| x as u64));
}

fn w_segs(out: &mut Vec<u64>, l: &[ragc_common::SegmentDesc]) {
    out.push(l.len() as u64);
    for s in l {
        out.extend([s.group_id as u64, s.in_group_id as u64, s.is_rev_comp as u64, s.raw_length as u64]);
    }
}

fn w_sample(out: &mut Vec<u64>, l: &[(String, Vec<u8>)]) {
    out.push(l.len() as u64);
    for (n, b) in l {
        w_bytes(out, n.as_bytes());
        w_bytes(out, b);
    }
}

fn fmt(kind: &str, n: u64, ws: &[u64]) -> String {
    format!("ok:{}:{}:{:016x}", kind, n, digest(ws))
}

fn c_bases(kind: &str, b: &[u8]) -> String {
    let mut w = vec![];
    w_bytes(&mut w, b);
    fmt(kind, b.len() as u64, &w)
}

fn c_names(l: &[String]) -> String {
    let mut w = vec![l.len() as u64];
    for n in l {
        w_bytes(&mut w, n.as_bytes());
    }
    fmt("names", l.len() as u64, &w)
}

// ------------------------------------------------------------------ operations

#[derive(Clone, Debug, PartialEq)]
pub enum Op {
    Ls,
    Lp(String),
    Lc(String),
    Len(String, String),
    Rng(String, String, usize, usize),
    Ctg(String, String),
    Dsc(String, String),
    Seg(u32, u32, bool, u32),
    Ref(u32),
    Smp(String),
    Sbp(String),
    Fa(String),
    Gst,
    All,
    Cst,
    Cln,
}

fn hx(s: &str) -> String {
    hex(s.as_bytes())
}

impl Op {
    /// protocol word (also the key of the fresh-answer cache)
    pub fn word(&self) -> String {
        match self {
            Op::Ls => "ls".into(),
            Op::Gst => "gst".into(),
            Op::All => "all".into(),
            Op::Cst => "cst".into(),
            Op::Cln => "cln".into(),
            Op::Lp(p) => format!("lp:{}", hx(p)),
            Op::Sbp(p) => format!("sbp:{}", hx(p)),
            Op::Lc(s) => format!("lc:{}", hx(s)),
            Op::Smp(s) => format!("smp:{}", hx(s)),
            Op::Fa(s) => format!("fa:{}", hx(s)),
            Op::Len(s, c) => format!("len:{}:{}", hx(s), hx(c)),
            Op::Ctg(s, c) => format!("ctg:{}:{}", hx(s), hx(c)),
            Op::Dsc(s, c) => format!("dsc:{}:{}", hx(s), hx(c)),
            Op::Rng(s, c, a, b) => format!("rng:{}:{}:{}:{}", hx(s), hx(c), a, b),
            Op::Seg(g, i, r, l) => format!("seg:{}:{}:{}:{}", g, i, *r as u8, l),
            Op::Ref(g) => format!("ref:{}", g),
        }
    }
    pub fn parse(w: &str) -> Option<Op> {
        let un = |h: &str| -> Option<String> { crate::model::unhex(h).and_then(|b| String::from_utf8(b).ok()) };
        let p: Vec<&str> = w.split(':').collect();
        Some(match p.as_slice() {
            ["ls"] => Op::Ls,
            ["gst"] => Op::Gst,
            ["all"] => Op::All,
            ["cst"] => Op::Cst,
            ["cln"] => Op::Cln,
            ["lp", a] => Op::Lp(un(a)?),
            ["sbp", a] => Op::Sbp(un(a)?),
            ["lc", a] => Op::Lc(un(a)?),
            ["smp", a] => Op::Smp(un(a)?),
            ["fa", a] => Op::Fa(un(a)?),
            ["len", a, b] => Op::Len(un(a)?, un(b)?),
            ["ctg", a, b] => Op::Ctg(un(a)?, un(b)?),
            ["dsc", a, b] => Op::Dsc(un(a)?, un(b)?),
            ["rng", a, b, s, e] => Op::Rng(un(a)?, un(b)?, s.parse().ok()?, e.parse().ok()?),
            ["seg", g, i, r, l] => Op::Seg(g.parse().ok()?, i.parse().ok()?, *r == "1", l.parse().ok()?),
            ["ref", g] => Op::Ref(g.parse().ok()?),
            _ => return None,
        })
    }
    fn class(&self) -> &'static str {
        match self {
            Op::Ls => "ls",
            Op::Lp(_) => "lp",
            Op::Lc(_) => "lc",
            Op::Len(..) => "len",
            Op::Rng(..) => "rng",
            Op::Ctg(..) => "ctg",
            Op::Dsc(..) => "dsc",
            Op::Seg(..) => "seg",
            Op::Ref(_) => "ref",
            Op::Smp(_) => "smp",
            Op::Sbp(_) => "sbp",
            Op::Fa(_) => "fa",
            Op::Gst => "gst",
            Op::All => "all",
            Op::Cst => "cst",
            Op::Cln => "cln",
        }
    }
}

static TMP_COUNTER: AtomicU64 = AtomicU64::new(0);

fn res<T>(r: Result<anyhow::Result<T>, String>, f: impl FnOnce(T) -> String) -> String {
    match r {
        Err(_) => "panic".into(),
        Ok(Err(_)) => "err".into(),
        Ok(Ok(v)) => f(v),
    }
}

/// Run one operation on a handle; the canonical string the Lean driver prints for the same value.
pub fn exec(d: &mut Decompressor, op: &Op, tmpdir: &Path) -> String {
    match op {
        Op::Ls => match guarded(|| d.list_samples()) {
            Ok(l) => c_names(&l),
            Err(_) => "panic".into(),
        },
        Op::Lp(p) => match guarded(|| d.list_samples_with_prefix(p)) {
            Ok(l) => c_names(&l),
            Err(_) => "panic".into(),
        },
        Op::Cst => match guarded(|| d.get_compression_stats()) {
            Ok(l) => c_streams(&l),
            Err(_) => "panic".into(),
        },
        Op::Cln => res(guarded(|| d.clone_for_thread()), |_| fmt("unit", 0, &[])),
        Op::Lc(s) => res(guarded(|| d.list_contigs(s)), |l| c_names(&l)),
        Op::Len(s, c) => res(guarded(|| d.get_contig_length(s, c)), |n| fmt("nat", n as u64, &[n as u64])),
        Op::Rng(s, c, a, b) => res(guarded(|| d.get_contig_range(s, c, *a, *b)), |v| c_bases("bases", &v)),
        Op::Ctg(s, c) => res(guarded(|| d.get_contig(s, c)), |v| c_bases("bases", &v)),
        Op::Dsc(s, c) => res(guarded(|| d.get_contig_segments_desc(s, c)), |l| {
            let mut w = vec![];
            w_segs(&mut w, &l);
            fmt("segs", l.len() as u64, &w)
        }),
        Op::Seg(g, i, r, l) => {
            let desc = ragc_common::SegmentDesc::new(*g, *i, *r, *l);
            res(guarded(|| d.get_segment_data_by_desc(&desc)), |v| c_bases("bases", &v))
        }
        Op::Ref(g) => res(guarded(|| d.get_reference_segment(*g)), |v| c_bases("bases", &v)),
        Op::Smp(s) => res(guarded(|| d.get_sample(s)), |l| {
            let mut w = vec![];
            w_sample(&mut w, &l);
            fmt("sample", l.len() as u64, &w)
        }),
        Op::Sbp(p) => res(guarded(|| d.get_samples_by_prefix(p)), |m| {
            let m: BTreeMap<String, Vec<(String, Vec<u8>)>> = m.into_iter().collect();
            let mut w = vec![m.len() as u64];
            for (n, l) in &m {
                w_bytes(&mut w, n.as_bytes());
                w_sample(&mut w, l);
            }
            fmt("samples", m.len() as u64, &w)
        }),
        Op::Fa(s) => {
            let path = tmpdir.join(format!("fa_{}_{}.fa", std::process::id(), TMP_COUNTER.fetch_add(1, Ordering::SeqCst)));
            let _ = std::fs::remove_file(&path);
            let r = res(guarded(|| d.write_sample_fasta(s, &path)), |_| match std::fs::read(&path) {
                Ok(b) => c_bases("file", &b),
                Err(_) => "ok:file:unreadable".into(),
            });
            let _ = std::fs::remove_file(&path);
            r
        }
        Op::Gst => res(guarded(|| d.get_group_statistics()), |l| {
            let mut w = vec![l.len() as u64];
            for x in &l {
                w.extend([x.0 as u64, x.1 as u64, x.2 as u64, x.3 as u64]);
            }
            fmt("gstats", l.len() as u64, &w)
        }),
        Op::All => res(guarded(|| d.get_all_segments()), |l| {
            let mut w = vec![l.len() as u64];
            for (s, c, segs) in &l {
                w_bytes(&mut w, s.as_bytes());
                w_bytes(&mut w, c.as_bytes());
                w_segs(&mut w, segs);
            }
            fmt("allsegs", l.len() as u64, &w)
        }),
    }
}

fn c_streams(l: &[(String, u64, u64, usize)]) -> String {
    let mut w = vec![l.len() as u64];
    for (n, a, b, c) in l {
        w_bytes(&mut w, n.as_bytes());
        w.extend([*a, *b, *c as u64]);
    }
    fmt("streams", l.len() as u64, &w)
}

// ------------------------------------------------------------------ archives

#[derive(Clone, Copy, Debug, PartialEq)]
enum Kind {
    TwoBatch,
    ShortSample,
    LongSegments,
    C01,
}

fn kind_of(idx: u64) -> Kind {
    match idx % 5 {
        0 => Kind::TwoBatch,
        1 => Kind::ShortSample,
        2 => Kind::LongSegments,
        3 => Kind::C01,
        _ => Kind::ShortSample,
    }
}

/// The archive generator, derived from (seed, index).
pub fn gen_case(seed: u64, idx: u64) -> c01::Case {
    let kind = kind_of(idx);
    let mut rng = Rng::new(seed, 8, idx);
    let mut case = c01::gen_case(seed, idx, false);
    if kind == Kind::C01 {
        case.desc["c08_kind"] = json!("c01");
        return case;
    }
    let k = *rng.pick(&[9usize, 11, 12, 15]);
    let (n_samples, n_contigs, lo, hi, segment_size) = match kind {
        Kind::TwoBatch => (rng.range(51, 58) as usize, rng.range(1, 2) as usize, 30usize, 160usize, *rng.pick(&[50usize, 70])),
        Kind::ShortSample => (rng.range(2, 5) as usize, rng.range(1, 3) as usize, 20, 400, *rng.pick(&[40usize, 80, 200])),
        _ => (rng.range(2, 4) as usize, rng.range(1, 2) as usize, 3000, 9000, *rng.pick(&[1000usize, 2000])),
    };
    let single_file = kind != Kind::TwoBatch && rng.chance(1, 3);
    let o = GenOpts {
        n_samples,
        n_contigs,
        len_lo: lo,
        len_hi: hi,
        div_per_mille: *rng.pick(&[0u64, 5, 20, 50]),
        iupac: rng.chance(1, 2),
        n_runs: rng.chance(1, 2),
        revcomp: rng.chance(1, 2),
        structural: kind != Kind::TwoBatch && rng.chance(1, 2),
        short_contigs: kind == Kind::ShortSample || rng.chance(1, 4),
        k,
        pansn: single_file || rng.chance(1, 4),
        descriptions: false,
    };
    let mut set = genomes::gen_sample_set(&mut rng, &o);
    if kind == Kind::ShortSample {
        // a sample whose contigs are all shorter than k, somewhere after the first sample
        let name = format!("s{:03}", n_samples);
        let n = rng.range(1, 3) as usize;
        let contigs: Vec<(String, Vec<u8>)> = (0..n)
            .map(|ci| {
                let len = rng.range(1, (k - 1) as u64) as usize;
                let h = if o.pansn { format!("{}#1#tiny{}", name, ci) } else { format!("{}_tiny{}", name, ci) };
                (h, genomes::random_seq(&mut rng, len))
            })
            .collect();
        let s = Sample { name: if o.pansn { format!("{}#1", name) } else { name }, contigs };
        let at = rng.range(1, set.samples.len() as u64) as usize;
        if single_file {
            set.samples.push(s); // single-file mode wants sorted sample names
        } else {
            set.samples.insert(at, s);
        }
    }
    case.set = set;
    case.single_file = single_file;
    case.params = Params {
        k,
        segment_size,
        min_match_len: rng.range(15, 24) as usize,
        pack_size: 50,
        threads: *rng.pick(&[1usize, 2, 4]),
        queue_capacity: 2 << 30,
        fallback_frac: *rng.pick(&[0.0f64, 0.0, 0.1]),
    };
    case.desc = json!({"seed": seed, "index": idx, "c08_kind": format!("{:?}", kind), "single_file": single_file,
        "params": case.params.to_json(), "gen": format!("{:?}", o)});
    case
}

/// What the model calls `Arch`, measured on the real archive through fresh handles.
pub struct ArchInfo {
    pub desc: Value,
    pub path: PathBuf,
    pub dir: PathBuf,
    pub k: usize,
    pub samples: Vec<String>,
    /// per sample: (contig name, descriptors)
    pub table: Vec<Vec<(String, Vec<ragc_common::SegmentDesc>)>>,
    pub batches: Vec<usize>,
    /// the 7 description words of the `rd-*` requests
    pub words: String,
    pub full: Vec<Op>,
    pub core: Vec<Op>,
    /// fresh-handle answers of the alphabet
    pub fresh: HashMap<String, String>,
    pub lz_groups: Vec<u32>,
    pub raw_groups: Vec<u32>,
}

fn outcome(r: Result<anyhow::Result<Vec<u8>>, String>) -> String {
    match r {
        Err(_) => "P".into(),
        Ok(Err(_)) => "E".into(),
        Ok(Ok(v)) => hex(&v),
    }
}

const NO_GROUP: u32 = 1_000_003;
const NO_ID: u32 = 777_777;

fn fresh_handle(path: &Path) -> Result<Decompressor, String> {
    archive::open(path)
}

pub fn fresh_answer(path: &Path, op: &Op, tmp: &Path) -> String {
    match fresh_handle(path) {
        Ok(mut d) => exec(&mut d, op, tmp),
        Err(_) => "open-failed".into(),
    }
}

/// Measure the archive content (fresh handle per item) and derive the alphabet.
fn measure(path: &Path, dir: &Path, desc: &Value, rep: &mut Report) -> Result<ArchInfo, String> {
    let d0 = fresh_handle(path)?;
    let k = d0.kmer_length as usize;
    let samples = d0.list_samples();
    let streams = d0.get_compression_stats();
    drop(d0);
    let n_batches = streams.iter().find(|s| s.0 == "collection-contigs").map(|s| s.3).unwrap_or(0);
    let mut batches: Vec<usize> = vec![];
    let mut left = samples.len();
    while left > 0 {
        let n = left.min(50);
        batches.push(n);
        left -= n;
    }
    if batches.len() != n_batches {
        rep.count("batch_structure_unexpected");
        rep.notes.push(format!("{} samples but {} metadata batches (expected {})", samples.len(), n_batches, batches.len()));
        return Err("unexpected batch structure".into());
    }
    let mut table = vec![];
    for s in &samples {
        let mut d = fresh_handle(path)?;
        let contigs = d.list_contigs(s).map_err(|e| format!("list_contigs({s}) on a fresh handle: {e:#}"))?;
        let mut row = vec![];
        for c in &contigs {
            let mut d = fresh_handle(path)?;
            let segs = d.get_contig_segments_desc(s, c).map_err(|e| format!("descriptors of {s}/{c} on a fresh handle: {e:#}"))?;
            row.push((c.clone(), segs));
        }
        table.push(row);
    }
    // groups and (group, id) pairs of the table + probes
    let mut pairs: BTreeSet<(u32, u32)> = BTreeSet::new();
    let mut groups: BTreeSet<u32> = BTreeSet::new();
    for row in &table {
        for (_, segs) in row {
            for s in segs {
                pairs.insert((s.group_id, s.in_group_id));
                groups.insert(s.group_id);
            }
        }
    }
    let lz_groups: Vec<u32> = groups.iter().copied().filter(|g| *g >= 16).collect();
    let raw_groups: Vec<u32> = groups.iter().copied().filter(|g| *g < 16).collect();
    for g in &lz_groups {
        pairs.insert((*g, 0));
        pairs.insert((*g, NO_ID));
    }
    for g in 0..16u32 {
        pairs.insert((g, 0));
        pairs.insert((g, NO_ID));
    }
    pairs.insert((NO_GROUP, 0));
    pairs.insert((NO_GROUP, 3));
    let mut ref_groups: BTreeSet<u32> = lz_groups.iter().copied().collect();
    ref_groups.insert(NO_GROUP);
    ref_groups.insert(16);
    ref_groups.insert(17);
    let mut refs = vec![];
    for g in &ref_groups {
        // the model's `ref g` is the reference-loading block of get_segment: measure it through
        // get_segment (in-group id 0), and note when get_reference_segment differs
        let mut d = fresh_handle(path)?;
        let desc = ragc_common::SegmentDesc::new(*g, 0, false, 0);
        let a = outcome(guarded(|| d.get_segment_data_by_desc(&desc)));
        refs.push(format!("{}={}", g, a));
        pairs.insert((*g, 0));
    }
    let mut segdata = vec![];
    for (g, i) in &pairs {
        let mut d = fresh_handle(path)?;
        let desc = ragc_common::SegmentDesc::new(*g, *i, false, 0);
        let a = outcome(guarded(|| d.get_segment_data_by_desc(&desc)));
        if a == "P" {
            rep.count("fresh_segment_panics");
        }
        segdata.push(format!("{}:{}={}", g, i, a));
    }
    rep.add("opens_for_measurement", (1 + samples.len() + table.iter().map(|r| r.len()).sum::<usize>() + refs.len() + segdata.len()) as u64);
    let names_w = if samples.is_empty() { ".".to_string() } else { samples.iter().map(|s| hx(s)).collect::<Vec<_>>().join(",") };
    let table_w = if table.is_empty() {
        "!".to_string()
    } else {
        table
            .iter()
            .map(|row| {
                if row.is_empty() {
                    ".".to_string()
                } else {
                    row.iter()
                        .map(|(c, segs)| {
                            let sw = if segs.is_empty() {
                                "-".to_string()
                            } else {
                                segs.iter()
                                    .map(|s| format!("{}:{}:{}:{}", s.group_id, s.in_group_id, s.is_rev_comp as u8, s.raw_length))
                                    .collect::<Vec<_>>()
                                    .join("/")
                            };
                            format!("{}={}", hx(c), sw)
                        })
                        .collect::<Vec<_>>()
                        .join(",")
                }
            })
            .collect::<Vec<_>>()
            .join(";")
    };
    let streams_w = if streams.is_empty() {
        ".".to_string()
    } else {
        streams.iter().map(|(n, a, b, c)| format!("{}:{}:{}:{}", hx(n), a, b, c)).collect::<Vec<_>>().join(",")
    };
    let words = format!("{} {} {} {} {} {} {}", k, names_w, nat_list(&batches), table_w, refs.join(","), segdata.join(","), streams_w);
    let mut info = ArchInfo {
        desc: desc.clone(),
        path: path.to_path_buf(),
        dir: dir.to_path_buf(),
        k,
        samples,
        table,
        batches,
        words,
        full: vec![],
        core: vec![],
        fresh: HashMap::new(),
        lz_groups,
        raw_groups,
    };
    alphabet(&mut info);
    let all: Vec<Op> = info.full.iter().chain(info.core.iter()).cloned().collect();
    for op in &all {
        let w = op.word();
        if info.fresh.contains_key(&w) {
            continue;
        }
        let a = fresh_answer(path, op, dir);
        // a fresh handle must itself be deterministic
        let b = fresh_answer(path, op, dir);
        if a != b {
            rep.oracle_fail("fresh-nondeterministic", &format!("two fresh handles answer {} differently: {} vs {}", w, a, b),
                case_json(desc, "fresh", &w, None));
        }
        info.fresh.insert(w, a);
    }
    Ok(info)
}

fn case_json(desc: &Value, mode: &str, ops: &str, extra: Option<Value>) -> Value {
    let mut c = desc.clone();
    c["mode"] = json!(mode);
    c["ops"] = json!(ops);
    if let Some(e) = extra {
        c["detail"] = e;
    }
    c
}

/// contig length from the descriptors as get_contig_length computes it (well-formed archives)
fn desc_len(k: usize, segs: &[ragc_common::SegmentDesc]) -> usize {
    segs.iter().enumerate().map(|(i, s)| if i == 0 { s.raw_length as usize } else { (s.raw_length as usize).saturating_sub(k) }).sum()
}

fn alphabet(a: &mut ArchInfo) {
    let n = a.samples.len();
    if n == 0 {
        a.full = vec![Op::Ls, Op::Gst, Op::All, Op::Cst, Op::Cln, Op::Smp("nosuch".into()), Op::Lc("nosuch".into())];
        a.core = a.full.clone();
        return;
    }
    // s0: a sample of batch 0, preferring one whose first contig has several segments and an LZ delta
    let score = |row: &Vec<(String, Vec<ragc_common::SegmentDesc>)>| -> usize {
        row.iter().map(|(_, s)| s.len() + s.iter().filter(|x| x.group_id >= 16 && x.in_group_id > 0).count() * 3).max().unwrap_or(0)
    };
    let i0 = (0..n.min(50)).max_by_key(|&i| (score(&a.table[i]), n - i)).unwrap();
    let i1 = if n > 50 { (50..n).max_by_key(|&i| (score(&a.table[i]), n - i)).unwrap() } else { n - 1 };
    let best_contig = |row: &Vec<(String, Vec<ragc_common::SegmentDesc>)>| -> Option<(String, Vec<ragc_common::SegmentDesc>)> {
        row.iter().max_by_key(|(_, s)| s.len() + s.iter().filter(|x| x.group_id >= 16 && x.in_group_id > 0).count() * 3).cloned()
    };
    let s0 = a.samples[i0].clone();
    let s1 = a.samples[i1].clone();
    let unk_s = "nosuch#sample".to_string();
    let unk_c = "nosuch_contig".to_string();
    let (c0, segs0) = best_contig(&a.table[i0]).unwrap_or((unk_c.clone(), vec![]));
    let (c1, _segs1) = best_contig(&a.table[i1]).unwrap_or((unk_c.clone(), vec![]));
    let len0 = desc_len(a.k, &segs0);
    // a sample whose contigs are all shorter than k (raw groups only)
    let short = (0..n).find(|&i| !a.table[i].is_empty() && a.table[i].iter().all(|(_, s)| desc_len(a.k, s) < a.k));
    // descriptors by class
    let all_descs: Vec<ragc_common::SegmentDesc> = a.table.iter().flat_map(|r| r.iter().flat_map(|(_, s)| s.iter().copied())).collect();
    let d_raw = all_descs.iter().find(|d| d.group_id < 16).copied();
    let d_ref = all_descs.iter().find(|d| d.group_id >= 16 && d.in_group_id == 0).copied();
    let d_delta = all_descs.iter().find(|d| d.group_id >= 16 && d.in_group_id > 0).copied();
    let d_delta_rev = all_descs.iter().find(|d| d.group_id >= 16 && d.in_group_id > 0 && d.is_rev_comp).copied();
    let lz = a.lz_groups.first().copied();
    let lz2 = a.lz_groups.last().copied();
    let rawg = a.raw_groups.first().copied().unwrap_or(0);
    // a prefix matching a few samples, not all
    let pre_some = {
        let s = &a.samples[i1];
        let cut = s.len().saturating_sub(1).max(1).min(s.len());
        s[..cut].to_string()
    };
    let seg = |d: ragc_common::SegmentDesc| Op::Seg(d.group_id, d.in_group_id, d.is_rev_comp, d.raw_length);

    let mut core: Vec<Op> = vec![
        Op::Ls,
        Op::Lc(s0.clone()),
        Op::Lc(unk_s.clone()),
        Op::Len(s0.clone(), c0.clone()),
        Op::Len(s0.clone(), unk_c.clone()),
        Op::Rng(s0.clone(), c0.clone(), len0 / 3, (len0 / 3 + a.k + 7).min(len0.max(1))),
        Op::Rng(s0.clone(), unk_c.clone(), 5, 3),
        Op::Rng(unk_s.clone(), c0.clone(), 1, 4),
        Op::Ctg(s0.clone(), c0.clone()),
        Op::Ctg(s1.clone(), c1.clone()),
        Op::Ctg(unk_s.clone(), c0.clone()),
        Op::Dsc(s0.clone(), c0.clone()),
        Op::Seg(NO_GROUP, 0, false, 0),
        Op::Ref(rawg),
        Op::Ref(NO_GROUP),
        Op::Smp(s0.clone()),
        Op::Smp(s1.clone()),
        Op::Smp(unk_s.clone()),
        Op::Sbp(pre_some.clone()),
        Op::Fa(s0.clone()),
        Op::Gst,
        Op::All,
        Op::Cln,
    ];
    if let Some(d) = d_delta.or(d_ref) {
        core.push(seg(d));
    }
    if let Some(d) = d_raw {
        core.push(seg(d));
    }
    if let Some(g) = lz {
        core.push(Op::Ref(g));
    }
    let mut full = core.clone();
    full.extend([
        Op::Lp(pre_some.clone()),
        Op::Lp("zz-none".into()),
        Op::Lp(String::new()),
        Op::Lc(s1.clone()),
        Op::Len(s1.clone(), c1.clone()),
        Op::Len(unk_s.clone(), c0.clone()),
        Op::Len(s0.clone(), c1.clone()),
        Op::Rng(s0.clone(), c0.clone(), 0, len0),
        Op::Rng(s0.clone(), c0.clone(), len0, len0 + 10),
        Op::Rng(s0.clone(), c0.clone(), len0.saturating_sub(3), usize::MAX / 2),
        Op::Rng(s0.clone(), c0.clone(), 7, 7),
        Op::Rng(s0.clone(), c0.clone(), 9, 2),
        Op::Rng(unk_s.clone(), unk_c.clone(), 4, 4),
        Op::Rng(s0.clone(), unk_c.clone(), 0, 10),
        Op::Rng(s1.clone(), c1.clone(), 2, 40),
        Op::Ctg(s0.clone(), unk_c.clone()),
        Op::Ctg(s0.clone(), c1.clone()),
        Op::Dsc(s1.clone(), c1.clone()),
        Op::Dsc(s0.clone(), unk_c.clone()),
        Op::Dsc(unk_s.clone(), c0.clone()),
        Op::Seg(rawg, NO_ID, false, 0),
        Op::Seg(NO_GROUP, 3, true, 5),
        Op::Ref(16),
        Op::Sbp("zz-none".into()),
        Op::Fa(unk_s.clone()),
        Op::Fa(s1.clone()),
        Op::Cst,
    ]);
    if let Some(d) = d_ref {
        full.push(seg(d));
    }
    if let Some(d) = d_delta_rev {
        full.push(seg(d));
    }
    if let Some(g) = lz {
        full.push(Op::Seg(g, NO_ID, false, 0));
    }
    if let Some(g) = lz2 {
        full.push(Op::Ref(g));
    }
    if let Some(i) = short {
        let s = a.samples[i].clone();
        let c = a.table[i][0].0.clone();
        full.push(Op::Smp(s.clone()));
        full.push(Op::Lc(s.clone()));
        full.push(Op::Ctg(s.clone(), c.clone()));
        full.push(Op::Rng(s.clone(), c.clone(), 0, 3));
        core.push(Op::Smp(s));
    }
    if n <= 12 {
        full.push(Op::Sbp(String::new()));
    }
    let dedup = |v: Vec<Op>| -> Vec<Op> {
        let mut seen = BTreeSet::new();
        v.into_iter().filter(|o| seen.insert(o.word())).collect()
    };
    a.core = dedup(core);
    a.full = dedup(full);
}

/// A random operation with random arguments (mostly existing names).
fn random_op(a: &ArchInfo, rng: &mut Rng) -> Op {
    if rng.chance(1, 3) || a.samples.is_empty() {
        return rng.pick(&a.full).clone();
    }
    let si = rng.below(a.samples.len() as u64) as usize;
    let s = if rng.chance(1, 8) { "nosuch#sample".to_string() } else { a.samples[si].clone() };
    let row = &a.table[si];
    let (c, segs) = if row.is_empty() || rng.chance(1, 8) {
        ("nosuch_contig".to_string(), vec![])
    } else {
        let x = rng.pick(row);
        (x.0.clone(), x.1.clone())
    };
    let len = desc_len(a.k, &segs);
    match rng.below(12) {
        0 => Op::Lc(s),
        1 => Op::Len(s, c),
        2 | 3 => {
            let x = rng.below(len as u64 + 4) as usize;
            let y = rng.below(len as u64 + 4) as usize;
            if rng.chance(1, 6) { Op::Rng(s, c, x.max(y), x.min(y)) } else { Op::Rng(s, c, x.min(y), x.max(y)) }
        }
        4 => Op::Ctg(s, c),
        5 => Op::Dsc(s, c),
        6 => {
            if segs.is_empty() {
                Op::Seg(NO_GROUP, 0, false, 0)
            } else {
                let d = rng.pick(&segs);
                Op::Seg(d.group_id, d.in_group_id, d.is_rev_comp, d.raw_length)
            }
        }
        7 => {
            if segs.is_empty() || rng.chance(1, 5) {
                Op::Ref(*rng.pick(&[0u32, 5, 16, NO_GROUP]))
            } else {
                Op::Ref(rng.pick(&segs).group_id)
            }
        }
        8 | 9 => Op::Smp(s),
        10 => Op::Fa(s),
        _ => {
            let cut = rng.below(s.len() as u64 + 1) as usize;
            if a.samples.len() > 12 && cut < s.len().saturating_sub(1) { Op::Lp(s[..cut].to_string()) } else { Op::Sbp(s[..cut].to_string()) }
        }
    }
}

// ------------------------------------------------------------------ running histories

struct Outcome {
    ops: Vec<String>,
    results: Vec<String>,
}

/// Run one history on one new handle; compare every result with the fresh-handle answer.
fn run_history(a: &ArchInfo, ops: &[Op], cache: &mut HashMap<String, String>, rep: &mut Report) -> Option<Outcome> {
    let mut d = match fresh_handle(&a.path) {
        Ok(d) => d,
        Err(e) => {
            rep.count("open_failed");
            rep.notes.push(format!("open failed: {e}"));
            return None;
        }
    };
    let words: Vec<String> = ops.iter().map(|o| o.word()).collect();
    let hist = words.join(";");
    let mut results = vec![];
    for (i, op) in ops.iter().enumerate() {
        let r = exec(&mut d, op, &a.dir);
        rep.count(&format!("op_{}", op.class()));
        rep.count(if r == "err" { "result_err" } else if r == "panic" { "result_panic" } else { "result_ok" });
        let w = &words[i];
        let fresh = match a.fresh.get(w).or_else(|| cache.get(w)) {
            Some(f) => f.clone(),
            None => {
                let f = fresh_answer(&a.path, op, &a.dir);
                cache.insert(w.clone(), f.clone());
                f
            }
        };
        if r == "panic" {
            rep.oracle_fail("reader-panic", &format!("operation {} of history [{}] panicked (fresh handle: {})", i, hist, fresh),
                case_json(&a.desc, "history", &hist, Some(json!({"at": i}))));
        } else if r != fresh {
            rep.oracle_fail("history-dependent",
                &format!("operation {} ({}) of history [{}] answered {} but a fresh handle answers {}", i, w, hist, r, fresh),
                case_json(&a.desc, "history", &hist, Some(json!({"at": i}))));
        }
        let stop = r == "panic";
        results.push(r);
        if stop {
            break;
        }
    }
    rep.case(&format!("{}|{}", a.desc, hist), ops.len() >= 2);
    Some(Outcome { ops: words, results })
}

/// Send finished histories to the model (`rd-run`) and compare result by result.
fn flush_model(a: &ArchInfo, model: &mut Option<Model>, rep: &mut Report, pending: &mut Vec<Outcome>) {
    if pending.is_empty() {
        return;
    }
    if let Some(m) = model.as_mut() {
        let req = format!("rd-run {} {}", a.words, pending.iter().map(|o| o.ops[..o.results.len()].join(";")).collect::<Vec<_>>().join(" "));
        let ans = m.ask(&req);
        let parts: Vec<&str> = ans.split(' ').collect();
        if parts.first() != Some(&"ok") || parts.len() != pending.len() + 1 {
            rep.disagree("rd-run", case_json(&a.desc, "history", &pending[0].ops.join(";"), None), &ans, "ok <results>…");
        } else {
            for (o, p) in pending.iter().zip(&parts[1..]) {
                let imp = o.results.join(",");
                if *p != imp {
                    rep.disagree("rd-run", case_json(&a.desc, "history", &o.ops.join(";"), None), p, &imp);
                }
            }
        }
    }
    pending.clear();
}

fn histories_of(a: &ArchInfo, alpha: &[Op], len: usize, from: u64, to: u64) -> Vec<Vec<Op>> {
    // the `from..to` slice of all sequences of exactly `len` operations (lexicographic index)
    let n = alpha.len() as u64;
    let _ = a;
    (from..to)
        .map(|mut x| {
            let mut v = vec![];
            for _ in 0..len {
                v.push(alpha[(x % n) as usize].clone());
                x /= n;
            }
            v.reverse();
            v
        })
        .collect()
}

/// One unit of work: a slice of the history space of one archive.
#[derive(Clone, Debug)]
enum Work {
    Exhaustive { arch: usize, full: bool, len: usize, from: u64, to: u64 },
    Random { arch: usize, from: u64, to: u64 },
    Clones { arch: usize, from: u64, to: u64 },
    Answers { arch: usize },
}

fn run_work(w: &Work, archs: &[ArchInfo], seed: u64, model: &mut Option<Model>, rep: &mut Report) {
    let mut cache: HashMap<String, String> = HashMap::new();
    let mut pending: Vec<Outcome> = vec![];
    match w {
        Work::Exhaustive { arch, full, len, from, to } => {
            let a = &archs[*arch];
            let alpha = if *full { &a.full } else { &a.core };
            for ops in histories_of(a, alpha, *len, *from, *to) {
                if let Some(o) = run_history(a, &ops, &mut cache, rep) {
                    pending.push(o);
                }
                rep.count(&format!("histories_exhaustive_len{}", len));
                if pending.len() >= 400 {
                    flush_model(a, model, rep, &mut pending);
                }
            }
            flush_model(a, model, rep, &mut pending);
        }
        Work::Random { arch, from, to } => {
            let a = &archs[*arch];
            for i in *from..*to {
                let mut rng = Rng::new(seed, 81, (*arch as u64) << 32 | i);
                let n = rng.range(4, 30) as usize;
                let ops: Vec<Op> = (0..n).map(|_| random_op(a, &mut rng)).collect();
                if let Some(o) = run_history(a, &ops, &mut cache, rep) {
                    pending.push(o);
                }
                rep.count("histories_random");
                if pending.len() >= 60 {
                    flush_model(a, model, rep, &mut pending);
                }
            }
            flush_model(a, model, rep, &mut pending);
        }
        Work::Clones { arch, from, to } => {
            let a = &archs[*arch];
            for i in *from..*to {
                run_clones(a, seed, i, &mut cache, model, rep, None);
            }
        }
        Work::Answers { arch } => {
            // the specification `answer` against the fresh-handle answers of the alphabet
            let a = &archs[*arch];
            if let Some(m) = model.as_mut() {
                let keys: Vec<&String> = a.fresh.keys().collect();
                for chunk in keys.chunks(200) {
                    let req = format!("rd-answer {} {}", a.words, chunk.iter().map(|s| s.as_str()).collect::<Vec<_>>().join(" "));
                    let ans = m.ask(&req);
                    let parts: Vec<&str> = ans.split(' ').collect();
                    if parts.first() != Some(&"ok") || parts.len() != chunk.len() + 1 {
                        rep.disagree("rd-answer", case_json(&a.desc, "answer", "", None), &ans, "ok <results>…");
                        continue;
                    }
                    for (k, p) in chunk.iter().zip(&parts[1..]) {
                        rep.count("answers_checked");
                        if *p != a.fresh[*k] {
                            rep.disagree("rd-answer", case_json(&a.desc, "answer", k, None), p, &a.fresh[*k]);
                        }
                    }
                }
            }
        }
    }
}

/// A handle with a history is cloned four times; the clones and the original answer random
/// operations concurrently; everything must be the fresh-handle answer.
fn run_clones(a: &ArchInfo, seed: u64, idx: u64, cache: &mut HashMap<String, String>, model: &mut Option<Model>, rep: &mut Report,
              fixed: Option<(Vec<Op>, Vec<Vec<Op>>)>) {
    let mut rng = Rng::new(seed, 82, (a.desc["index"].as_u64().unwrap_or(0)) << 32 | idx);
    let (prefix, per_thread): (Vec<Op>, Vec<Vec<Op>>) = match fixed {
        Some(f) => f,
        None => {
            let np = rng.below(6) as usize;
            let prefix = (0..np).map(|_| random_op(a, &mut rng)).collect();
            let per = (0..5).map(|_| (0..rng.range(8, 25)).map(|_| random_op(a, &mut rng)).collect()).collect();
            (prefix, per)
        }
    };
    let mut base = match fresh_handle(&a.path) {
        Ok(d) => d,
        Err(_) => {
            rep.count("open_failed");
            return;
        }
    };
    let mut acts: Vec<String> = vec![];
    let mut expect: Vec<String> = vec![];
    for op in &prefix {
        let r = exec(&mut base, op, &a.dir);
        acts.push(format!("0/{}", op.word()));
        expect.push(r);
    }
    let mut clones = vec![];
    for _ in 0..4 {
        match guarded(|| base.clone_for_thread()) {
            Ok(Ok(c)) => clones.push(c),
            _ => {
                rep.oracle_fail("clone-dependent", "clone_for_thread failed on an open handle", case_json(&a.desc, "clones", "", None));
                return;
            }
        }
        acts.push("c0".into());
        expect.push(fmt("unit", 0, &[]));
    }
    // handle 0 = the original (stays on this thread), 1..4 = clones in their own threads
    let barrier = std::sync::Barrier::new(5);
    let dir = a.dir.clone();
    let logs: Vec<Vec<String>> = std::thread::scope(|sc| {
        let mut hs = vec![];
        for (t, mut d) in clones.into_iter().enumerate() {
            let ops = per_thread[t + 1].clone();
            let barrier = &barrier;
            let dir = dir.clone();
            hs.push(sc.spawn(move || {
                barrier.wait();
                ops.iter().map(|op| exec(&mut d, op, &dir)).collect::<Vec<String>>()
            }));
        }
        barrier.wait();
        let own: Vec<String> = per_thread[0].iter().map(|op| exec(&mut base, op, &dir)).collect();
        let mut logs = vec![own];
        for h in hs {
            logs.push(h.join().unwrap_or_default());
        }
        logs
    });
    // oracle: every answer is the fresh-handle answer
    let mut all_words = vec![];
    for (h, log) in logs.iter().enumerate() {
        for (j, r) in log.iter().enumerate() {
            let op = &per_thread[h][j];
            let w = op.word();
            let fresh = match a.fresh.get(&w).or_else(|| cache.get(&w)) {
                Some(f) => f.clone(),
                None => {
                    let f = fresh_answer(&a.path, op, &a.dir);
                    cache.insert(w.clone(), f.clone());
                    f
                }
            };
            rep.count("clone_ops");
            let detail = json!({"prefix": prefix.iter().map(|o| o.word()).collect::<Vec<_>>().join(";"),
                "threads": per_thread.iter().map(|v| v.iter().map(|o| o.word()).collect::<Vec<_>>().join(";")).collect::<Vec<_>>(),
                "handle": h, "at": j, "clone_index": idx});
            if r == "panic" {
                rep.oracle_fail("reader-panic", &format!("handle {h} (0 = original, 1..4 = clones in threads) panicked on {w}"),
                    case_json(&a.desc, "clones", &w, Some(detail)));
            } else if *r != fresh {
                rep.oracle_fail("clone-dependent",
                    &format!("handle {h} (0 = original, 1..4 = clones in threads) answered {r} to {w}, a fresh handle answers {fresh}"),
                    case_json(&a.desc, "clones", &w, Some(detail)));
            }
            all_words.push(w);
        }
    }
    // model: one interleaving (round robin) of the five logs through rd-sys
    let maxlen = logs.iter().map(|l| l.len()).max().unwrap_or(0);
    for j in 0..maxlen {
        for h in 0..logs.len() {
            if j < logs[h].len() {
                acts.push(format!("{}/{}", h, per_thread[h][j].word()));
                expect.push(logs[h][j].clone());
            }
        }
    }
    rep.case(&format!("{}|clones|{}", a.desc, acts.join(";")), true);
    rep.count("clone_runs");
    if let Some(m) = model.as_mut() {
        if !acts.is_empty() {
            let ans = m.ask(&format!("rd-sys {} {}", a.words, acts.join(";")));
            let imp = format!("ok {}", expect.join(","));
            if ans != imp {
                rep.disagree("rd-sys", case_json(&a.desc, "clones", &acts.join(";"), None), &ans, &imp);
            }
        }
    }
}

// ------------------------------------------------------------------ driver

fn build_archive(workdir: &str, seed: u64, idx: u64, rep: &mut Report) -> Option<ArchInfo> {
    let case = gen_case(seed, idx);
    let dir = PathBuf::from(workdir).join(format!("c08_{idx}"));
    let _ = std::fs::remove_dir_all(&dir);
    let mut prng = Rng::new(seed, 108, idx);
    let inputs = c01::write_inputs(&dir, &case, &mut prng, &Presentation::plain());
    let out = dir.join("out.agc");
    rep.count("archives_attempted");
    let t = std::time::Instant::now();
    let created = guarded(|| archive::create_archive(&inputs, &out, &case.params));
    rep.add("time_ms_create", t.elapsed().as_millis() as u64);
    rep.add(&format!("time_ms_create_{}", case.desc["c08_kind"].as_str().unwrap_or("?")), t.elapsed().as_millis() as u64);
    match created {
        Err(p) => {
            rep.count("create_panic_skipped");
            rep.notes.push(format!("create panicked (not C08, skipped): {p}"));
            None
        }
        Ok(Err(e)) => {
            rep.count("create_err_skipped");
            rep.notes.push(format!("create error (not a violation): {e}"));
            None
        }
        Ok(Ok(())) => {
            let t = std::time::Instant::now();
            let r = measure(&out, &dir, &case.desc, rep);
            rep.add("time_ms_measure", t.elapsed().as_millis() as u64);
            match r {
                Ok(info) => {
                    rep.count("archives_measured");
                    rep.count(&format!("archive_kind_{}", case.desc["c08_kind"].as_str().unwrap_or("?")));
                    if info.batches.len() >= 2 {
                        rep.count("archive_two_metadata_batches");
                    }
                    // references stored raw (metadata 0) / compressed: visible in the stream table
                    if !info.lz_groups.is_empty() {
                        rep.count("archive_has_lz_groups");
                    }
                    if !info.raw_groups.is_empty() {
                        rep.count("archive_has_raw_groups");
                    }
                    // references by storage form (part metadata 0 = stored raw, else ZSTD + marker byte)
                    let mut ar = ragc_common::Archive::new_reader();
                    if ar.open(out.to_str().unwrap()).is_ok() {
                        let (mut raw, mut comp) = (0u64, 0u64);
                        for g in &info.lz_groups {
                            let name = ragc_common::stream_ref_name(ragc_common::AGC_FILE_MAJOR * 1000 + ragc_common::AGC_FILE_MINOR, *g);
                            if let Some(id) = ar.get_stream_id(&name) {
                                if let Ok((_, meta)) = ar.get_part_by_id(id, 0) {
                                    if meta == 0 {
                                        raw += 1
                                    } else {
                                        comp += 1
                                    }
                                }
                            }
                        }
                        rep.add("references_stored_raw", raw);
                        rep.add("references_stored_compressed", comp);
                    }
                    Some(info)
                }
                Err(e) => {
                    rep.count("measure_failed");
                    rep.notes.push(format!("measuring archive {idx} failed: {e}"));
                    None
                }
            }
        }
    }
}

pub fn run(ctx: &mut Ctx) -> Report {
    let mut rep = Report::new(
        "C08",
        "archives: two-batch (51..58 samples, tiny contigs), small with a sample of contigs all shorter than k, long segments \
         (compressed references), C01 cases; per archive the abstract content is measured with a fresh handle per item; histories: \
         all sequences of length 1..3 over the core alphabet (one operation per method x argument class: existing / unknown sample, \
         existing / unknown contig, batch 0 / batch 1, range inside / beyond / start >= end, raw / LZ / unknown group), length 1..2 \
         over the full alphabet, random length 4..30 with random arguments; clones: 4 clone_for_thread handles in 4 threads + the \
         original, concurrently; a case is one history (non-trivial when it has >= 2 operations), distinct by archive and history",
    );
    let (seed, workdir) = (ctx.seed, ctx.workdir.clone());
    if let Some(r) = ctx.replay.clone() {
        let c = &r["case"];
        let idx = c["index"].as_u64().unwrap_or(0);
        let cseed = c["seed"].as_u64().unwrap_or(seed);
        let mut m = ctx.spawn_model();
        if let Some(a) = build_archive(&workdir, cseed, idx, &mut rep) {
            let mut cache = HashMap::new();
            let mode = c["mode"].as_str().unwrap_or("history");
            if mode == "clones" {
                let d = &c["detail"];
                let parse_ops = |s: &str| -> Vec<Op> { s.split(';').filter(|x| !x.is_empty()).filter_map(Op::parse).collect() };
                let prefix = parse_ops(d["prefix"].as_str().unwrap_or(""));
                let per: Vec<Vec<Op>> = d["threads"].as_array().map(|v| v.iter().map(|x| parse_ops(x.as_str().unwrap_or(""))).collect()).unwrap_or_default();
                if per.len() == 5 {
                    // timing-dependent: repeat
                    for i in 0..20 {
                        run_clones(&a, cseed, i, &mut cache, &mut m, &mut rep, Some((prefix.clone(), per.clone())));
                    }
                } else {
                    run_clones(&a, cseed, d["clone_index"].as_u64().unwrap_or(0), &mut cache, &mut m, &mut rep, None);
                }
            } else {
                let ops: Vec<Op> = c["ops"].as_str().unwrap_or("").split(';').filter(|x| !x.is_empty()).filter_map(Op::parse).collect();
                let mut pending = vec![];
                if let Some(o) = run_history(&a, &ops, &mut cache, &mut rep) {
                    pending.push(o);
                }
                flush_model(&a, &mut m, &mut rep, &mut pending);
            }
            let _ = std::fs::remove_dir_all(&a.dir);
        }
        return rep;
    }

    // phase 1: archives
    let n_arch = ctx.t(4u64, 15u64);
    let built = std::sync::Mutex::new(Vec::<(u64, ArchInfo)>::new());
    crate::props::par_cases(ctx, &mut rep, n_arch, 5, |_m, r, i| {
        if let Some(a) = build_archive(&workdir, seed, i, r) {
            built.lock().unwrap().push((i, a));
        }
    });
    let mut archs: Vec<(u64, ArchInfo)> = built.into_inner().unwrap();
    archs.sort_by_key(|x| x.0);
    let archs: Vec<ArchInfo> = archs.into_iter().map(|x| x.1).collect();

    // phase 2: slices of the history space
    let thorough = ctx.t(false, true);
    let mut work: Vec<Work> = vec![];
    let mut first_two_batch = true;
    for (ai, a) in archs.iter().enumerate() {
        work.push(Work::Answers { arch: ai });
        let nc = a.core.len() as u64;
        let nf = a.full.len() as u64;
        rep.add("alphabet_core_ops", nc);
        rep.add("alphabet_full_ops", nf);
        let mut push_all = |full: bool, len: usize, n: u64| {
            let total = n.pow(len as u32);
            let step = 1500u64;
            let mut from = 0;
            while from < total {
                work.push(Work::Exhaustive { arch: ai, full, len, from, to: (from + step).min(total) });
                from += step;
            }
        };
        push_all(true, 1, nf);
        push_all(true, 2, nf);
        push_all(false, 3, nc);
        if thorough && a.batches.len() >= 2 && first_two_batch {
            first_two_batch = false;
            push_all(true, 3, nf);
            rep.count("exhaustive_full_alphabet_len3_archives");
        }
        let n_random = ctx.t(150u64, 1500u64);
        let mut from = 0;
        while from < n_random {
            work.push(Work::Random { arch: ai, from, to: (from + 50).min(n_random) });
            from += 50;
        }
        let n_clones = ctx.t(12u64, 80u64);
        let mut from = 0;
        while from < n_clones {
            work.push(Work::Clones { arch: ai, from, to: (from + 4).min(n_clones) });
            from += 4;
        }
    }
    rep.exhaustive = true;
    let archs_ref = &archs;
    let work_ref = &work;
    crate::props::par_cases(ctx, &mut rep, work.len() as u64, 6, |m, r, i| {
        run_work(&work_ref[i as usize], archs_ref, seed, m, r);
    });
    for a in &archs {
        if rep.samples.len() < 4 {
            rep.sample(json!({"archive": a.desc, "samples": a.samples.len(), "metadata_batches": a.batches,
                "contigs": a.table.iter().map(|r| r.len()).sum::<usize>(),
                "lz_groups": a.lz_groups.len(), "raw_groups": a.raw_groups.len(),
                "core_alphabet": a.core.iter().map(|o| o.word()).collect::<Vec<_>>(),
                "full_alphabet_size": a.full.len()}));
        }
        let _ = std::fs::remove_dir_all(&a.dir);
    }
    rep
}
