//! C16 every successfully created archive is fully extractable (any FASTA text).
//!
//! (1) parser correspondence: `GenomeIO` (`read_contig_raw`, `read_contig`, `read_contig_converted`,
//!     `read_contig_with_sample`, over a `Cursor` and through `GenomeIO::open` / `MultiFileIterator`
//!     on files) against the Lean model (`fasta-parse*`, `fasta-sample`), on an exhaustive small
//!     token domain, on texts of the FASTA grammar below and on byte-random texts;
//! (2) end to end: create (library API driven as main.rs does, and the real `ragc` binary for a
//!     subset) then list / extract; oracle: create fails, or every listed sample extracts and
//!     equals the documented normalisation of the input records (computed from the *structure* the
//!     text was rendered from, not by re-parsing) and no record with >= 1 base is missing.
use crate::gen::archive::{self, Params};
use crate::model::{hex, Model};
use crate::props::guarded;
use crate::report::Report;
use crate::rng::Rng;
use crate::Ctx;
use ragc_core::contig_iterator::ContigIterator;
use ragc_core::{GenomeIO, MultiFileIterator};
use serde_json::{json, Value};
use std::io::{Cursor, Read};
use std::path::{Path, PathBuf};
use std::process::Command;

pub const IUPAC: &[u8; 16] = b"ACGTNRYSWKMBDHVU";
const NON_IUPAC: &[u8] = b"EFIJLOPQXZ";

// ------------------------------------------------------------------ structure of a FASTA text

#[derive(Clone, Debug)]
pub enum Item {
    /// a white-space-only line outside any record (before the first header)
    Blank(Vec<u8>),
    /// `>` lead core trail EOL, then the lines (without EOL; may be empty or white space only)
    Rec { lead: Vec<u8>, core: Vec<u8>, trail: Vec<u8>, lines: Vec<Vec<u8>> },
}

#[derive(Clone, Debug)]
pub struct FileSpec {
    pub stem: String,
    pub items: Vec<Item>,
    /// 0 LF, 1 CRLF, 2 mixed per line
    pub eol: u8,
    pub final_newline: bool,
    pub text: Vec<u8>,
}

/// The documented normalisation: letters only, upper case, outside the IUPAC set -> N.
pub fn normalise_doc(s: &[u8]) -> Vec<u8> {
    s.iter()
        .filter(|c| c.is_ascii_alphabetic())
        .map(|c| {
            let u = c.to_ascii_uppercase();
            if IUPAC.contains(&u) { u } else { b'N' }
        })
        .collect()
}

fn has_code30(s: &[u8]) -> bool {
    s.iter().any(|c| c.is_ascii_alphabetic() && !IUPAC.contains(&c.to_ascii_uppercase()))
}

pub fn render_items(rng: &mut Rng, items: &[Item], eol: u8, final_newline: bool) -> Vec<u8> {
    let mut lines: Vec<Vec<u8>> = vec![];
    for it in items {
        match it {
            Item::Blank(ws) => lines.push(ws.clone()),
            Item::Rec { lead, core, trail, lines: ls } => {
                let mut h = vec![b'>'];
                h.extend_from_slice(lead);
                h.extend_from_slice(core);
                h.extend_from_slice(trail);
                lines.push(h);
                lines.extend(ls.iter().cloned());
            }
        }
    }
    let mut out = vec![];
    let n = lines.len();
    for (i, l) in lines.iter().enumerate() {
        out.extend_from_slice(l);
        if i + 1 < n || final_newline {
            let crlf = match eol {
                0 => false,
                1 => true,
                _ => rng.chance(1, 2),
            };
            out.extend_from_slice(if crlf { b"\r\n" } else { b"\n" });
        }
    }
    out
}

/// D9 trigger classes present in a file, in text order: (record index it precedes, kind).
#[derive(Clone, Copy, PartialEq, Eq, Debug)]
pub enum Trigger {
    LeadingBlank,
    EmptyRecord,
    EmptyName,
}

/// Expected records of one file: (sample, name, normalised letters, trigger seen before this record).
pub fn expected_of_file(f: &FileSpec) -> Vec<(String, Vec<u8>, Vec<u8>, Option<Trigger>, bool)> {
    let mut out = vec![];
    let mut trig: Option<Trigger> = None;
    let mut seen_record = false;
    let n_items = f.items.len();
    for (i, it) in f.items.iter().enumerate() {
        match it {
            Item::Blank(_) => {
                if !seen_record && trig.is_none() {
                    trig = Some(Trigger::LeadingBlank);
                }
            }
            Item::Rec { core, lines, .. } => {
                seen_record = true;
                let seq: Vec<u8> = lines.iter().flatten().cloned().collect();
                let letters = normalise_doc(&seq);
                if trig.is_none() && core.is_empty() {
                    trig = Some(Trigger::EmptyName);
                }
                if !letters.is_empty() {
                    let name = String::from_utf8_lossy(core).to_string();
                    let parts: Vec<&str> = name.split('#').collect();
                    let sample = if parts.len() >= 3 { format!("{}#{}", parts[0], parts[1]) } else { f.stem.clone() };
                    out.push((sample, core.clone(), letters, trig, has_code30(&seq)));
                }
                if trig.is_none() && lines.is_empty() && i + 1 < n_items {
                    trig = Some(Trigger::EmptyRecord);
                }
            }
        }
    }
    out
}

// ------------------------------------------------------------------ generator

#[derive(Clone, Debug)]
pub struct GenFlags {
    /// records without sequence lines / leading blank lines / empty names may occur
    pub d9: bool,
    pub empty_names: bool,
    /// letters outside the IUPAC set may occur
    pub code30: bool,
    pub pansn: bool,
}

fn header_core(rng: &mut Rng, uniq: &str, pansn_sample: Option<&str>) -> Vec<u8> {
    // printable ASCII, spaces / tabs / '#' / '>' inside; never starts with '>' or white space
    let mut core: Vec<u8> = vec![];
    if let Some(s) = pansn_sample {
        core.extend_from_slice(s.as_bytes());
        core.push(b'#');
    }
    core.extend_from_slice(uniq.as_bytes());
    let n = rng.below(10);
    for _ in 0..n {
        let c = match rng.below(12) {
            0 => b' ',
            1 => b'\t',
            2 => if pansn_sample.is_some() { b'_' } else { b'#' },
            3 => b'>',
            _ => rng.range(33, 126) as u8,
        };
        let c = if pansn_sample.is_some() && c == b'#' && rng.chance(1, 2) { b'x' } else { c };
        core.push(c);
    }
    while matches!(core.last(), Some(b' ') | Some(b'\t')) {
        core.pop();
    }
    core
}

fn ws_run(rng: &mut Rng, allow_empty: bool) -> Vec<u8> {
    let n = if allow_empty { rng.below(3) } else { rng.range(1, 2) };
    (0..n).map(|_| *rng.pick(&[b' ', b' ', b'\t'])).collect()
}

/// Turn letters into FASTA sequence lines: random widths, random case, junk (digits, gaps, spaces)
/// sprinkled in, interior blank / white-space-only lines.
fn decorate(rng: &mut Rng, letters: &[u8], noisy: bool) -> Vec<Vec<u8>> {
    let mut lines: Vec<Vec<u8>> = vec![];
    let width = *rng.pick(&[1usize, 7, 13, 60, 80, 100_000]);
    let width = if letters.len() > 400 && width == 1 { 60 } else { width };
    let lower = rng.below(3);
    let mut cur: Vec<u8> = vec![];
    let mut in_line = 0usize;
    for &c in letters {
        if noisy && rng.chance(1, 25) {
            cur.push(*rng.pick(b"0123456789-*. "));
        }
        let c = match lower {
            0 => c,
            1 => c.to_ascii_lowercase(),
            _ => if rng.chance(1, 2) { c.to_ascii_lowercase() } else { c },
        };
        cur.push(c);
        in_line += 1;
        if in_line >= width {
            lines.push(std::mem::take(&mut cur));
            in_line = 0;
            if noisy && rng.chance(1, 12) {
                lines.push(ws_run(rng, true));
            }
        }
    }
    if !cur.is_empty() {
        lines.push(cur);
    }
    if noisy && rng.chance(1, 6) {
        // a line of junk only
        lines.push(b"12 -- **".to_vec());
    }
    lines
}

fn mutate(rng: &mut Rng, s: &[u8], flags: &GenFlags) -> Vec<u8> {
    let mut out = Vec::with_capacity(s.len() + 8);
    let mut i = 0;
    while i < s.len() {
        if rng.chance(1, 40) {
            match rng.below(8) {
                0 | 1 | 2 => {
                    out.push(b"ACGT"[rng.below(4) as usize]);
                    i += 1;
                }
                3 => out.extend((0..rng.range(1, 6)).map(|_| b"ACGT"[rng.below(4) as usize])),
                4 => i += rng.range(1, 6) as usize,
                5 => {
                    out.push(IUPAC[rng.range(4, 15) as usize]);
                    i += 1;
                }
                6 if flags.code30 => {
                    out.push(*rng.pick(NON_IUPAC));
                    i += 1;
                }
                _ => {
                    out.extend(std::iter::repeat(b'N').take(rng.range(1, 6) as usize));
                    i += 1;
                }
            }
        } else {
            out.push(s[i]);
            i += 1;
        }
    }
    out
}

pub struct E2eCase {
    pub files: Vec<FileSpec>,
    pub params: Params,
    pub flags: GenFlags,
    pub desc: Value,
}

fn random_letters(rng: &mut Rng, n: usize, flags: &GenFlags) -> Vec<u8> {
    (0..n)
        .map(|_| match rng.below(20) {
            0 => IUPAC[rng.range(4, 15) as usize],
            1 if flags.code30 => *rng.pick(NON_IUPAC),
            _ => b"ACGT"[rng.below(4) as usize],
        })
        .collect()
}

/// One file of the grammar. `base`: contigs the sample derives from (related samples reach the LZ path).
fn gen_file(rng: &mut Rng, stem: &str, base: &[Vec<u8>], flags: &GenFlags, is_ref: bool, pansn_sample: Option<&str>) -> FileSpec {
    let mut items: Vec<Item> = vec![];
    if flags.d9 && rng.chance(1, 5) {
        for _ in 0..rng.range(1, 2) {
            items.push(Item::Blank(ws_run(rng, true)));
        }
    }
    let mut idx = 0usize;
    let push_rec = |rng: &mut Rng, items: &mut Vec<Item>, lines: Vec<Vec<u8>>, idx: &mut usize| {
        let core = if flags.empty_names && rng.chance(1, 12) {
            vec![]
        } else {
            header_core(rng, &format!("c{}", *idx), pansn_sample)
        };
        *idx += 1;
        let lead = if rng.chance(1, 6) { ws_run(rng, false) } else { vec![] };
        let trail = if rng.chance(1, 5) { ws_run(rng, false) } else { vec![] };
        items.push(Item::Rec { lead, core, trail, lines });
    };
    for b in base {
        if flags.d9 && rng.chance(1, 7) {
            // a record without any line
            push_rec(rng, &mut items, vec![], &mut idx);
        }
        if rng.chance(1, 10) {
            // a record whose lines carry no base
            let lines = vec![ws_run(rng, true), b"1234 --".to_vec()];
            let nl = rng.range(1, 2) as usize;
            push_rec(rng, &mut items, lines[..nl].to_vec(), &mut idx);
        }
        if !is_ref && rng.chance(1, 8) {
            continue; // contig absent in this sample
        }
        let seq = if is_ref && !flags.code30 { b.clone() } else { mutate(rng, b, flags) };
        let seq = if is_ref && flags.code30 { mutate(rng, b, flags) } else { seq };
        let noisy = rng.chance(2, 3);
        let lines = decorate(rng, &seq, noisy);
        push_rec(rng, &mut items, lines, &mut idx);
        if rng.chance(1, 5) {
            // a tiny unrelated record
            let n = rng.range(1, 30) as usize;
            let letters = random_letters(rng, n, flags);
            let lines = decorate(rng, &letters, true);
            push_rec(rng, &mut items, lines, &mut idx);
        }
    }
    if flags.d9 && rng.chance(1, 8) {
        push_rec(rng, &mut items, vec![], &mut idx); // trailing record without sequence (harmless)
    }
    // trailing blank lines belong to the last record's lines
    if rng.chance(1, 5) {
        if let Some(Item::Rec { lines, .. }) = items.last_mut() {
            if !lines.is_empty() {
                lines.push(ws_run(rng, true));
            }
        }
    }
    let eol = *rng.pick(&[0u8, 0, 1, 2]);
    let final_newline = !rng.chance(1, 6);
    let text = render_items(rng, &items, eol, final_newline);
    FileSpec { stem: stem.to_string(), items, eol, final_newline, text }
}

pub fn gen_e2e(seed: u64, idx: u64) -> E2eCase {
    let mut rng = Rng::new(seed, 16, idx);
    let single_file = rng.chance(1, 4);
    let flags = GenFlags {
        d9: rng.chance(1, 3),
        empty_names: rng.chance(1, 8),
        code30: rng.chance(1, 3),
        pansn: single_file || rng.chance(1, 5),
    };
    let k = *rng.pick(&[7usize, 9, 11, 15]);
    let n_samples = rng.range(1, 4) as usize;
    let n_contigs = rng.range(1, 3) as usize;
    let base: Vec<Vec<u8>> = (0..n_contigs)
        .map(|_| {
            let n = *rng.pick(&[3usize, 40, 150, 400, 900]);
            let n = rng.range((n / 2).max(1) as u64, n as u64) as usize;
            (0..n).map(|_| b"ACGT"[rng.below(4) as usize]).collect()
        })
        .collect();
    let mut files = vec![];
    if single_file {
        // one PanSN file: the samples' items one after the other
        let mut items = vec![];
        for s in 0..n_samples {
            let name = format!("S{}#{}", s, rng.below(3));
            let f = gen_file(&mut rng, "all", &base, &flags, s == 0, Some(&name));
            let mut its = f.items;
            if s > 0 {
                // blank items only make sense before the first record
                its.retain(|i| matches!(i, Item::Rec { .. }));
            }
            items.extend(its);
        }
        let eol = *rng.pick(&[0u8, 0, 1, 2]);
        let final_newline = !rng.chance(1, 6);
        let text = render_items(&mut rng, &items, eol, final_newline);
        files.push(FileSpec { stem: "all".into(), items, eol, final_newline, text });
    } else {
        for s in 0..n_samples {
            let stem = format!("s{}", s);
            let ps = if flags.pansn { Some(format!("P{}#{}", s, rng.below(3))) } else { None };
            files.push(gen_file(&mut rng, &stem, &base, &flags, s == 0, ps.as_deref()));
        }
    }
    let params = Params {
        k,
        segment_size: *rng.pick(&[30usize, 60, 120, 400]),
        min_match_len: *rng.pick(&[12usize, 15, 20]),
        pack_size: 50,
        threads: *rng.pick(&[1usize, 2, 4]),
        queue_capacity: 1 << 30,
        fallback_frac: *rng.pick(&[0.0f64, 0.0, 0.1]),
    };
    let desc = json!({"stream": "e2e", "seed": seed, "index": idx, "single_file": single_file,
        "flags": format!("{:?}", flags), "params": params.to_json()});
    E2eCase { files, params, flags, desc }
}

/// Hand-made minimal cases (always run): the smallest texts of each interesting class.
pub fn fixed_cases() -> Vec<(&'static str, Vec<(&'static str, &'static [u8])>)> {
    let r: &[u8] = b">r1\nACGTACGTTGCAACGTAGCTAGCTAGGATCGATCGTAGCTAGCTAGCATCGATCGATCAGCTAGCTAGCATCGA\n";
    vec![
        ("plain", vec![("s0", r), ("s1", b">q1\nACGTACGTTGCAACGTAGCTAGCTAGGATCGATCGTAGCAAGCTAGCATCGATCGATCAGCTAGCTAGCATCGA\n")]),
        ("empty-record-nonref", vec![("s0", r), ("s1", b">e\n>q1\nACGT\n")]),
        ("empty-record-ref", vec![("s0", b">e\n>r1\nACGTACGTAA\n"), ("s1", b">q1\nACGT\n")]),
        ("leading-blank-nonref", vec![("s0", r), ("s1", b"\n>q1\nACGT\n")]),
        ("leading-blank-ref", vec![("s0", b"\n>r1\nACGTACGTAA\n"), ("s1", b">q1\nACGT\n")]),
        ("blank-after-header", vec![("s0", r), ("s1", b">e\n\n>q1\nACGT\n")]),
        ("empty-name", vec![("s0", r), ("s1", b">  \nACGT\n>q1\nACGT\n")]),
        ("trailing-empty-record", vec![("s0", r), ("s1", b">q1\nACGT\n>e\n")]),
        ("no-final-newline-crlf-lower", vec![("s0", r), ("s1", b">q1 d  \r\nac\r\n\r\ngt")]),
        ("non-iupac-short", vec![("s0", r), ("s1", b">q1\nACGTXACGT\n")]),
        ("digits-gaps", vec![("s0", r), ("s1", b">q1\nAC-GT 12*.\n  \nNNRY\n")]),
        // two records with the same name in one sample (repaired defect D13: the second one's
        // segments overwrote the first one's descriptors; now create refuses the input)
        ("duplicate-name", vec![("s0", r), ("s1", b">q1\nACGTACGTTGCAACGTAGCTAGCTAGGATCGATCGTAGCAAGCTAGC\n>q1\nTTGACCATGGCATTGACCAGTACCGATTAGGCAT\n>q2\nACGT\n")]),
        ("duplicate-name-ref", vec![("s0", b">r1\nACGTACGTTGCAACGTAGCTAGCTAGGATCGATCGTAGCTAGC\n>r1\nTTGACCATGGCATTGACCAGTACCGATTAGGCATCCA\n"), ("s1", b">q1\nACGT\n")]),
        ("single-file-empty-record", vec![("all", b">A#1#c1\nACGTACGTAA\n>A#1#e\n>B#1#c1\nACGTACGTAC\n")]),
    ]
}

fn spec_from_text(stem: &str, text: &[u8]) -> FileSpec {
    // structure of a hand-made text (LF only, simple headers)
    let mut items = vec![];
    let final_newline = text.last() == Some(&b'\n');
    let body = if final_newline { &text[..text.len() - 1] } else { text };
    let mut eol = 0u8;
    for l in body.split(|&c| c == b'\n') {
        let l: Vec<u8> = if l.last() == Some(&b'\r') {
            eol = 1;
            l[..l.len() - 1].to_vec()
        } else {
            l.to_vec()
        };
        if l.first() == Some(&b'>') {
            let h = &l[1..];
            let s = h.iter().position(|c| !c.is_ascii_whitespace()).unwrap_or(h.len());
            let e = h.iter().rposition(|c| !c.is_ascii_whitespace()).map(|p| p + 1).unwrap_or(s);
            items.push(Item::Rec { lead: h[..s].to_vec(), core: h[s..e].to_vec(), trail: h[e..].to_vec(), lines: vec![] });
        } else if let Some(Item::Rec { lines, .. }) = items.last_mut() {
            lines.push(l);
        } else {
            items.push(Item::Blank(l));
        }
    }
    FileSpec { stem: stem.to_string(), items, eol, final_newline, text: text.to_vec() }
}

// ------------------------------------------------------------------ (1) parser correspondence

fn show_pairs(v: &[(Vec<u8>, Vec<u8>)]) -> String {
    let mut s = format!("ok {}", v.len());
    for (a, b) in v {
        s.push(' ');
        s.push_str(&hex(a));
        s.push(':');
        s.push_str(&hex(b));
    }
    s
}

/// All records up to the end of the input; `Err` = the reader returned `Err` (cannot happen on a
/// Cursor with the reader as it stands; after the D9 repair a record without a name is an error).
fn read_all<R: Read>(mut g: GenomeIO<R>, which: u8) -> Result<Vec<(Vec<u8>, Vec<u8>)>, String> {
    let mut out = vec![];
    loop {
        let r = match which {
            0 => g.read_contig_raw(),
            1 => g.read_contig(),
            _ => g.read_contig_converted(),
        };
        match r {
            Ok(Some((id, c))) => out.push((id.into_bytes(), c)),
            Ok(None) => break,
            Err(e) => return Err(e.to_string()),
        }
    }
    Ok(out)
}

fn show_err(e: &str) -> String {
    if e.contains("empty name") { "err empty-name".to_string() } else { format!("err other {e}") }
}

/// Compare the three `read_contig_raw`-based entry points over a Cursor with the model.
pub fn parser_case(model: &mut Option<Model>, rep: &mut Report, text: &[u8], case: Value) {
    let names = ["fasta-parse-raw", "fasta-parse-ascii", "fasta-parse"];
    let mut n_records = 0;
    for which in 0..3u8 {
        let t = text.to_vec();
        let imp = match guarded(|| read_all(GenomeIO::new(Cursor::new(t)), which)) {
            Ok(Ok(v)) => {
                n_records = v.len();
                show_pairs(&v)
            }
            Ok(Err(e)) => {
                n_records = 0;
                show_err(&e)
            }
            Err(p) => format!("panic {p}"),
        };
        if let Some(m) = model.as_mut() {
            let ans = m.ask(&format!("{} {}", names[which as usize], hex(text)));
            if ans != imp {
                rep.disagree(names[which as usize], case.clone(), &ans, &imp);
            }
        }
    }
    rep.count(match n_records {
        0 => "parser_records_0",
        1 => "parser_records_1",
        _ => "parser_records_2plus",
    });
}

/// `MultiFileIterator` / `GenomeIO::open` on a file against the model (records + sample naming).
pub fn parser_file_case(model: &mut Option<Model>, rep: &mut Report, path: &Path, text: &[u8], case: Value) {
    let p = path.to_path_buf();
    let imp = guarded(|| -> Result<Vec<(String, String, Vec<u8>)>, String> {
        let mut it = MultiFileIterator::new(vec![p.clone()]).map_err(|e| format!("{e:#}"))?;
        let mut out = vec![];
        while let Some(x) = it.next_contig().map_err(|e| format!("{e:#}"))? {
            out.push(x);
        }
        Ok(out)
    });
    let p2 = path.to_path_buf();
    let with_sample = guarded(|| -> Vec<(String, String, String)> {
        let mut out = vec![];
        if let Ok(mut g) = GenomeIO::<Box<dyn Read>>::open(&p2) {
            while let Ok(Some((full, s, c, _))) = g.read_contig_with_sample() {
                out.push((full, s, c));
            }
        }
        out
    });
    rep.count("parser_file_cases");
    let (records, ws) = match (imp, with_sample) {
        (Ok(Ok(r)), Ok(w)) => (r, w),
        (Ok(Err(e)), _) if e.contains("empty name") => {
            // the reader refuses the file: the model must say so too
            if let Some(m) = model.as_mut() {
                let ans = m.ask(&format!("fasta-parse {}", hex(text)));
                if ans != "err empty-name" {
                    rep.disagree("multi-file-iterator-records", case, &ans, "err empty-name");
                }
            }
            rep.count("parser_file_read_error");
            return;
        }
        (a, _) => {
            rep.disagree("multi-file-iterator", case, "ok …", &format!("{:?}", a.map(|x| x.map(|v| v.len()))));
            return;
        }
    };
    if let Some(m) = model.as_mut() {
        let pairs: Vec<(Vec<u8>, Vec<u8>)> = records.iter().map(|(_, h, c)| (h.clone().into_bytes(), c.clone())).collect();
        let ans = m.ask(&format!("fasta-parse {}", hex(text)));
        let impl_s = show_pairs(&pairs);
        if ans != impl_s {
            rep.disagree("multi-file-iterator-records", case.clone(), &ans, &impl_s);
        }
        let pbytes = path.to_string_lossy().to_string().into_bytes();
        for (i, (sample, header, _)) in records.iter().enumerate() {
            let ans = m.ask(&format!("fasta-sample {} {}", hex(header.as_bytes()), hex(&pbytes)));
            let (ps, pc) = ws.get(i).map(|w| (w.1.clone(), w.2.clone())).unwrap_or_default();
            let impl_s = format!("ok {} {} {}", hex(sample.as_bytes()), hex(ps.as_bytes()), hex(pc.as_bytes()));
            if ans != impl_s {
                rep.disagree("sample-naming", json!({"case": case, "header": header, "path": path.to_string_lossy()}), &ans, &impl_s);
            }
            rep.count(if ps != "unknown" { "sample_from_pansn_header" } else { "sample_from_file_name" });
        }
    }
}

fn token_texts(max_len: usize) -> Vec<Vec<u8>> {
    // exhaustive: all token sequences up to max_len
    let toks: [&[u8]; 9] = [b">", b"a", b"G", b"x", b" ", b"\r", b"\n", b"#", b"1"];
    let mut out: Vec<Vec<u8>> = vec![vec![]];
    let mut frontier: Vec<Vec<u8>> = vec![vec![]];
    for _ in 0..max_len {
        let mut next = Vec::with_capacity(frontier.len() * toks.len());
        for t in &frontier {
            for k in toks.iter() {
                let mut x = t.clone();
                x.extend_from_slice(k);
                next.push(x);
            }
        }
        out.extend(next.iter().cloned());
        frontier = next;
    }
    out
}

fn random_bytes_text(rng: &mut Rng) -> Vec<u8> {
    let n = rng.below(120) as usize;
    let mut out: Vec<u8> = (0..n)
        .map(|_| match rng.below(16) {
            0 | 1 => b'\n',
            2 => b'>',
            3 => b'\r',
            4 => b' ',
            5 => b'#',
            6 | 7 => rng.below(256) as u8,
            8 => rng.below(128) as u8,
            9 => *rng.pick(&[0x0bu8, 0x0c, 0x09, 0x1c, 0x1f, 0x7f, 0x60, 0x5b, 0x40, 0x41]),
            _ => *rng.pick(b"ACGTacgtNnRYKMxzEe"),
        })
        .collect();
    // the model's header domain is valid UTF-8: keep the lines the reader can take as header lines
    // (the first line, and every line starting with '>') ASCII; sequence lines carry any byte
    // (the first line that is not blank as well: a reader that skips leading blank lines takes that one)
    let mut start = 0usize;
    let mut first = true;
    while start < out.len() {
        let end = out[start..].iter().position(|&c| c == b'\n').map(|p| start + p + 1).unwrap_or(out.len());
        if first || out[start] == b'>' {
            for c in out[start..end].iter_mut() {
                if *c >= 128 {
                    *c = b'N';
                }
            }
        }
        if !out[start..end].iter().all(|c| c.is_ascii_whitespace() || *c == 0x0b) {
            first = false;
        }
        start = end;
    }
    out
}

fn utf8_header_text(rng: &mut Rng) -> Vec<u8> {
    // valid UTF-8, multi-byte characters that are not white space, inside and at the ends
    let words = ["é", "日本", "ß", "Ω", "ñ", "→", "𝛼", "chr1", "x y", "#", "a"];
    let mut t = vec![];
    for _ in 0..rng.range(1, 3) {
        t.push(b'>');
        for _ in 0..rng.range(1, 4) {
            t.extend_from_slice(rng.pick(&words).as_bytes());
        }
        t.extend_from_slice(if rng.chance(1, 2) { b" \r\n" } else { b"\n" });
        t.extend_from_slice(b"ACgtN\n");
    }
    t
}

// ------------------------------------------------------------------ (2) end to end

#[derive(Debug)]
pub enum Fail {
    Err(String),
    Panic(String),
}

pub trait Backend {
    fn name(&self) -> &'static str;
    fn create(&self, inputs: &[PathBuf], out: &Path, p: &Params) -> Result<(), Fail>;
    fn list_samples(&self, archive: &Path) -> Result<Vec<String>, Fail>;
    fn list_contigs(&self, archive: &Path, sample: &str) -> Result<Vec<String>, Fail>;
    /// the FASTA text `getset` / `write_sample_fasta` writes for one sample
    fn extract(&self, archive: &Path, sample: &str, scratch: &Path) -> Result<Vec<u8>, Fail>;
}

pub struct Lib;
pub struct Cli {
    pub bin: String,
}

fn g<T>(f: impl FnOnce() -> Result<T, String>) -> Result<T, Fail> {
    match guarded(f) {
        Ok(Ok(v)) => Ok(v),
        Ok(Err(e)) => Err(Fail::Err(e)),
        Err(p) => Err(Fail::Panic(p)),
    }
}

impl Backend for Lib {
    fn name(&self) -> &'static str {
        "lib"
    }
    fn create(&self, inputs: &[PathBuf], out: &Path, p: &Params) -> Result<(), Fail> {
        g(|| archive::create_archive(inputs, out, p))
    }
    fn list_samples(&self, a: &Path) -> Result<Vec<String>, Fail> {
        g(|| Ok(archive::open(a)?.list_samples()))
    }
    fn list_contigs(&self, a: &Path, s: &str) -> Result<Vec<String>, Fail> {
        g(|| archive::open(a)?.list_contigs(s).map_err(|e| format!("{e:#}")))
    }
    fn extract(&self, a: &Path, s: &str, scratch: &Path) -> Result<Vec<u8>, Fail> {
        g(|| {
            let mut d = archive::open(a)?;
            d.write_sample_fasta(s, scratch).map_err(|e| format!("{e:#}"))?;
            std::fs::read(scratch).map_err(|e| e.to_string())
        })
    }
}

impl Cli {
    fn run(&self, args: &[&std::ffi::OsStr]) -> Result<Vec<u8>, Fail> {
        let o = Command::new(&self.bin).args(args).output().map_err(|e| Fail::Err(format!("spawn: {e}")))?;
        let err = String::from_utf8_lossy(&o.stderr).to_string();
        let tail: String = err.lines().rev().take(4).collect::<Vec<_>>().into_iter().rev().collect::<Vec<_>>().join(" | ");
        match o.status.code() {
            Some(0) => Ok(o.stdout),
            Some(101) => Err(Fail::Panic(tail)),
            Some(c) => Err(Fail::Err(format!("exit {c}: {tail}"))),
            None => Err(Fail::Panic(format!("killed by signal: {tail}"))),
        }
    }
}

impl Backend for Cli {
    fn name(&self) -> &'static str {
        "cli"
    }
    fn create(&self, inputs: &[PathBuf], out: &Path, p: &Params) -> Result<(), Fail> {
        let k = p.k.to_string();
        let s = p.segment_size.to_string();
        let m = p.min_match_len.to_string();
        let l = p.pack_size.to_string();
        let t = p.threads.to_string();
        let f = p.fallback_frac.to_string();
        let mut args: Vec<&std::ffi::OsStr> = vec![];
        for a in ["create", "-o"] {
            args.push(a.as_ref());
        }
        args.push(out.as_os_str());
        for a in ["-k", &k, "-s", &s, "-m", &m, "-l", &l, "-t", &t, "--fallback-frac", &f, "-v", "0"] {
            args.push(a.as_ref());
        }
        for i in inputs {
            args.push(i.as_os_str());
        }
        self.run(&args).map(|_| ())
    }
    fn list_samples(&self, a: &Path) -> Result<Vec<String>, Fail> {
        let o = self.run(&["listset".as_ref(), a.as_os_str()])?;
        Ok(String::from_utf8_lossy(&o).lines().map(|l| l.to_string()).collect())
    }
    fn list_contigs(&self, a: &Path, s: &str) -> Result<Vec<String>, Fail> {
        let o = self.run(&["listctg".as_ref(), a.as_os_str(), s.as_ref()])?;
        let pre = format!("{s}\t");
        Ok(String::from_utf8_lossy(&o).lines().map(|l| l.strip_prefix(&pre).unwrap_or(l).to_string()).collect())
    }
    fn extract(&self, a: &Path, s: &str, _scratch: &Path) -> Result<Vec<u8>, Fail> {
        self.run(&["getset".as_ref(), a.as_os_str(), s.as_ref()])
    }
}

/// `save_contig_directly` re-implemented from its documentation: `>name`, 80 columns.
fn fasta_text(contigs: &[(Vec<u8>, Vec<u8>)]) -> Vec<u8> {
    let mut out = vec![];
    for (n, s) in contigs {
        out.push(b'>');
        out.extend_from_slice(n);
        out.push(b'\n');
        for c in s.chunks(80) {
            out.extend_from_slice(c);
            out.push(b'\n');
        }
    }
    out
}

/// Expected catalogue: samples in first-seen order, each with its (name, letters) in order.
type Catalogue = Vec<(String, Vec<(Vec<u8>, Vec<u8>)>)>;

pub fn expected_catalogue(files: &[FileSpec]) -> (Catalogue, Vec<(String, Vec<u8>, Option<Trigger>, bool)>) {
    let mut cat: Catalogue = vec![];
    let mut flat = vec![];
    for f in files {
        for (sample, name, letters, trig, h30) in expected_of_file(f) {
            flat.push((sample.clone(), name.clone(), trig, h30));
            if let Some(e) = cat.iter_mut().find(|e| e.0 == sample) {
                e.1.push((name, letters));
            } else {
                cat.push((sample, vec![(name, letters)]));
            }
        }
    }
    (cat, flat)
}

pub fn e2e_case(workdir: &str, tag: &str, backend: &dyn Backend, model: &mut Option<Model>, rep: &mut Report, files: &[FileSpec], params: &Params, desc: &Value) {
    let dir = PathBuf::from(workdir).join(format!("c16_{tag}_{}", backend.name()));
    let _ = std::fs::remove_dir_all(&dir);
    std::fs::create_dir_all(&dir).unwrap();
    let inputs: Vec<PathBuf> = files
        .iter()
        .map(|f| {
            let p = dir.join(format!("{}.fa", f.stem));
            std::fs::write(&p, &f.text).unwrap();
            p
        })
        .collect();
    let case = json!({"desc": desc, "backend": backend.name(),
        "files": files.iter().map(|f| json!({"name": format!("{}.fa", f.stem), "text": String::from_utf8_lossy(&f.text), "hex": hex(&f.text)})).collect::<Vec<_>>()});
    let (cat, flat) = expected_catalogue(files);
    let n_expected: usize = cat.iter().map(|s| s.1.len()).sum();
    rep.case(&(desc.to_string(), backend.name()), n_expected >= 2);
    rep.count(&format!("e2e_{}", backend.name()));
    rep.count(if files.len() == 1 { "mode_single_file" } else { "mode_multi_file" });
    if flat.iter().any(|x| x.3) {
        rep.count("branch_input_has_non_iupac_letter");
    }
    if flat.iter().any(|x| x.2.is_some()) {
        rep.count("branch_record_after_d9_trigger");
    }
    // the parser on exactly these files (through MultiFileIterator)
    if backend.name() == "lib" {
        for (f, p) in files.iter().zip(&inputs) {
            parser_file_case(model, rep, p, &f.text, json!({"desc": desc, "file": f.stem, "hex": hex(&f.text)}));
        }
    }
    let out = dir.join("out.agc");
    match backend.create(&inputs, &out, params) {
        Err(Fail::Panic(p)) => {
            rep.oracle_fail("create-panic", &format!("[{}] create panicked: {p}", backend.name()), case.clone());
        }
        Err(Fail::Err(e)) => {
            rep.count("create_err");
            if rep.notes.len() < 8 {
                rep.notes.push(format!("create error (allowed by the property): {e}"));
            }
        }
        Ok(()) => {
            rep.count("create_ok");
            check_archive(backend, model, rep, &dir, &out, &cat, &flat, files, &case);
        }
    }
    let _ = std::fs::remove_dir_all(&dir);
}

#[allow(clippy::too_many_arguments)]
fn check_archive(backend: &dyn Backend, model: &mut Option<Model>, rep: &mut Report, dir: &Path, out: &Path, cat: &Catalogue,
                 flat: &[(String, Vec<u8>, Option<Trigger>, bool)], _files: &[FileSpec], case: &Value) {
    let b = backend.name();
    // ---- catalogue: nothing with a base may be missing
    let listed = match backend.list_samples(out) {
        Ok(l) => l,
        Err(e) => {
            rep.oracle_fail("extract-error", &format!("[{b}] listing samples failed: {e:?}"), case.clone());
            return;
        }
    };
    let mut got_names: Vec<(String, Vec<u8>)> = vec![];
    let mut listing_ok = true;
    for s in &listed {
        match backend.list_contigs(out, s) {
            Ok(cs) => got_names.extend(cs.into_iter().map(|c| (s.clone(), c.into_bytes()))),
            Err(e) => {
                listing_ok = false;
                rep.oracle_fail("extract-error", &format!("[{b}] listing contigs of {s:?} failed: {e:?}"), case.clone());
            }
        }
    }
    if listing_ok {
        let missing: Vec<&(String, Vec<u8>, Option<Trigger>, bool)> =
            flat.iter().filter(|x| !got_names.iter().any(|g| g.0 == x.0 && g.1 == x.1)).collect();
        if let Some(m) = missing.first() {
            let sig = match m.2 {
                Some(Trigger::EmptyRecord) => "create-drops-after-empty-record",
                Some(Trigger::LeadingBlank) => "create-drops-after-leading-blank",
                Some(Trigger::EmptyName) => "create-drops-after-empty-name",
                None => "create-drops-record",
            };
            rep.oracle_fail(
                sig,
                &format!("[{b}] create exited 0 but {} of {} records with bases are not in the archive; first missing: sample {:?} contig {:?}; listed samples {:?}",
                    missing.len(), flat.len(), m.0, String::from_utf8_lossy(&m.1), listed),
                case.clone(),
            );
        }
        let extra: Vec<&(String, Vec<u8>)> = got_names.iter().filter(|g| !flat.iter().any(|x| g.0 == x.0 && g.1 == x.1)).collect();
        if let Some(x) = extra.first() {
            rep.oracle_fail("extract-mismatch", &format!("[{b}] archive lists a contig that is not in the input: sample {:?} contig {:?}", x.0, String::from_utf8_lossy(&x.1)), case.clone());
        }
    }
    // ---- every listed sample extracts and equals the normalisation of what was put in
    let scratch = dir.join("extract.fa");
    for s in &listed {
        let exp: Vec<(Vec<u8>, Vec<u8>)> = cat.iter().find(|e| &e.0 == s).map(|e| e.1.clone()).unwrap_or_default();
        // restrict the expectation to the contigs the archive lists for this sample (drops are reported above)
        let exp_listed: Vec<(Vec<u8>, Vec<u8>)> = exp.iter().filter(|c| got_names.iter().any(|g| &g.0 == s && g.1 == c.0)).cloned().collect();
        let sample_has30 = flat.iter().any(|x| &x.0 == s && x.3 && got_names.iter().any(|g| &g.0 == s && g.1 == x.1));
        match backend.extract(out, s, &scratch) {
            Err(e) => {
                let sig = if sample_has30 { "extract-code-30" } else { "extract-error" };
                rep.oracle_fail(sig, &format!("[{b}] create exited 0 but extracting sample {s:?} failed: {e:?}"), case.clone());
            }
            Ok(text) => {
                rep.count("samples_extracted");
                let want = fasta_text(&exp_listed);
                if text != want {
                    rep.oracle_fail("extract-mismatch", &format!("[{b}] sample {s:?} (has non-IUPAC letters: {sample_has30}): extracted FASTA differs from the normalised input: expected {:?} got {:?}",
                        crate::report::clip(&String::from_utf8_lossy(&want)), crate::report::clip(&String::from_utf8_lossy(&text))), case.clone());
                } else {
                    rep.add("contigs_extracted_equal", exp_listed.len() as u64);
                }
                // writer correspondence: the model's writer on the codes the archive holds
                if b == "lib" {
                    if let (Some(m), Ok(Ok(codes))) = (model.as_mut(), guarded(|| archive::open(out).and_then(|mut d| d.get_sample(s).map_err(|e| format!("{e:#}"))))) {
                        let mut req = String::from("fasta-write");
                        for (n, c) in &codes {
                            req.push(' ');
                            req.push_str(&hex(n.as_bytes()));
                            req.push(':');
                            req.push_str(&hex(c));
                        }
                        let ans = m.ask(&req);
                        let imp = format!("ok {}", hex(&text));
                        if ans != imp {
                            rep.disagree("write-sample-fasta", case.clone(), &ans, &imp);
                        }
                    }
                }
            }
        }
    }
}

// ------------------------------------------------------------------ driver

fn sample_name_cases(workdir: &str, model: &mut Option<Model>, rep: &mut Report) {
    // file-stem rule: all names built from up to 4 tokens
    let toks = ["x", ".fa", ".fasta", ".gz", ".fna", ".", "a"];
    let mut names: Vec<String> = vec![];
    let mut frontier: Vec<String> = vec![String::new()];
    for _ in 0..4 {
        let mut next = vec![];
        for f in &frontier {
            for t in toks {
                next.push(format!("{f}{t}"));
            }
        }
        names.extend(next.iter().cloned());
        frontier = next;
    }
    names.sort();
    names.dedup();
    let dir = PathBuf::from(workdir).join("c16_names.d");
    let _ = std::fs::remove_dir_all(&dir);
    std::fs::create_dir_all(&dir).unwrap();
    let text = b">ctg one\nACGT\n";
    for n in names {
        if n == "." || n == ".." {
            continue;
        }
        let p = dir.join(&n);
        let gz = p.extension().and_then(|s| s.to_str()) == Some("gz");
        let bytes = if gz {
            use std::io::Write;
            let mut e = flate2::write::GzEncoder::new(Vec::new(), flate2::Compression::fast());
            e.write_all(text).unwrap();
            e.finish().unwrap()
        } else {
            text.to_vec()
        };
        std::fs::write(&p, bytes).unwrap();
        rep.case(&("name", n.clone()), true);
        rep.count(if gz { "sample_name_gz" } else { "sample_name_plain" });
        parser_file_case(model, rep, &p, text, json!({"stream": "file-name", "name": n}));
        let _ = std::fs::remove_file(&p);
    }
    let _ = std::fs::remove_dir_all(&dir);
}

pub fn run(ctx: &mut Ctx) -> Report {
    let mut rep = Report::new(
        "C16",
        "(1) parser: all token sequences of length <= 5 (quick) / 6 (thorough) over {>, a, G, x, space, CR, LF, #, 1}; texts of the FASTA grammar \
         (printable headers with spaces/tabs/#/> inside and white space around, sequence lines over all letters in both cases, digits, -*. and \
         spaces, records without lines, white-space-only lines, blank lines first/inside/last, LF/CRLF/mixed, missing final newline); byte-random \
         texts; UTF-8 headers; file names from <= 4 tokens of {x,.fa,.fasta,.gz,.fna,.,a}. (2) end to end: 12 hand-made minimal cases and grammar \
         cases with 1..4 related samples (multi-file and single PanSN file), through the library API and, for a subset, the ragc binary; \
         a case is non-trivial when it has >= 2 records with bases (e2e) / always (parser); distinct by text or generator description",
    );
    let cli_bin = std::env::var("VERIF_RAGC").ok().filter(|p| Path::new(p).exists());
    if cli_bin.is_none() {
        rep.notes.push("VERIF_RAGC not set: CLI part skipped".into());
    }
    let (seed, workdir) = (ctx.seed, ctx.workdir.clone());

    if let Some(r) = ctx.replay.clone() {
        let c = &r["case"];
        let d = if c["desc"].is_object() { &c["desc"] } else { c };
        let mut m = ctx.spawn_model();
        let backend_cli = c["backend"].as_str() == Some("cli");
        let lib = Lib;
        let cli = cli_bin.clone().map(|bin| Cli { bin });
        let backend: &dyn Backend = if backend_cli && cli.is_some() { cli.as_ref().unwrap() } else { &lib };
        match d["stream"].as_str() {
            Some("e2e") => {
                let case = gen_e2e(d["seed"].as_u64().unwrap_or(1), d["index"].as_u64().unwrap_or(0));
                e2e_case(&workdir, "replay", backend, &mut m, &mut rep, &case.files, &case.params, &case.desc);
            }
            Some("fixed") => {
                let name = d["name"].as_str().unwrap_or("");
                for (n, fs) in fixed_cases() {
                    if n == name {
                        let files: Vec<FileSpec> = fs.iter().map(|(s, t)| spec_from_text(s, t)).collect();
                        e2e_case(&workdir, "replay", backend, &mut m, &mut rep, &files, &fixed_params(), d);
                    }
                }
            }
            _ => {
                // parser case: the text is in the case
                if let Some(t) = c["hex"].as_str().and_then(crate::model::unhex) {
                    parser_case(&mut m, &mut rep, &t, c.clone());
                    rep.case(&t, true);
                }
            }
        }
        return rep;
    }

    // ---- (1a) exhaustive small token domain
    let texts = token_texts(ctx.t(5, 6));
    let n_tok = texts.len() as u64;
    crate::props::par_cases(ctx, &mut rep, n_tok, 6, |m, r, i| {
        let t = &texts[i as usize];
        r.case(t, true);
        parser_case(m, r, t, json!({"stream": "tokens", "hex": hex(t), "text": String::from_utf8_lossy(t)}));
    });
    rep.add("parser_token_texts", n_tok);
    // ---- (1b) grammar texts, byte-random texts, UTF-8 headers
    let n_gram = ctx.t(1500, 15000);
    crate::props::par_cases(ctx, &mut rep, n_gram, 6, |m, r, i| {
        let mut rng = Rng::new(seed, 1601, i);
        let t = match i % 5 {
            0 | 1 | 2 => {
                let flags = GenFlags { d9: rng.chance(1, 2), empty_names: rng.chance(1, 4), code30: rng.chance(1, 2), pansn: rng.chance(1, 3) };
                let mut base: Vec<Vec<u8>> = vec![];
                for _ in 0..rng.range(1, 3) {
                    let n = rng.range(1, 90) as usize;
                    base.push(random_letters(&mut rng, n, &flags));
                }
                let ps = if flags.pansn { Some("P#1") } else { None };
                r.count("parser_grammar_texts");
                gen_file(&mut rng, "p", &base, &flags, i % 2 == 0, ps).text
            }
            3 => {
                r.count("parser_random_byte_texts");
                random_bytes_text(&mut rng)
            }
            _ => {
                r.count("parser_utf8_header_texts");
                utf8_header_text(&mut rng)
            }
        };
        r.case(&t, true);
        if t.contains(&b'\r') {
            r.count("branch_text_has_cr");
        }
        if t.last().is_some_and(|&c| c != b'\n') {
            r.count("branch_no_final_newline");
        }
        parser_case(m, r, &t, json!({"stream": "parser", "seed": seed, "index": i, "hex": hex(&t), "text": String::from_utf8_lossy(&t)}));
    });
    // ---- (1c) file names
    {
        let mut m = ctx.spawn_model();
        sample_name_cases(&workdir, &mut m, &mut rep);
        if let Some(m) = &m {
            rep.model_requests += m.requests;
        }
    }

    // ---- (2) end to end
    let fixed = fixed_cases();
    let n_fixed = fixed.len() as u64;
    let n_e2e = ctx.t(48u64, 600);
    let cli_every = ctx.t(4u64, 4);
    let cli_ref = cli_bin.clone();
    crate::props::par_cases(ctx, &mut rep, n_fixed + n_e2e, 6, |m, r, i| {
        let lib = Lib;
        let cli = cli_ref.clone().map(|bin| Cli { bin });
        if i < n_fixed {
            let (name, fs) = &fixed[i as usize];
            let files: Vec<FileSpec> = fs.iter().map(|(s, t)| spec_from_text(s, t)).collect();
            let desc = json!({"stream": "fixed", "name": name});
            e2e_case(&workdir, &format!("f{i}"), &lib, m, r, &files, &fixed_params(), &desc);
            if let Some(c) = &cli {
                e2e_case(&workdir, &format!("f{i}"), c, m, r, &files, &fixed_params(), &desc);
            }
        } else {
            let idx = i - n_fixed;
            let case = gen_e2e(seed, idx);
            e2e_case(&workdir, &format!("g{idx}"), &lib, m, r, &case.files, &case.params, &case.desc);
            if idx % cli_every == 0 {
                if let Some(c) = &cli {
                    e2e_case(&workdir, &format!("g{idx}"), c, m, r, &case.files, &case.params, &case.desc);
                }
            }
            if r.samples.len() < 2 {
                r.sample(json!({"desc": case.desc, "files": case.files.iter().map(|f| crate::report::clip(&String::from_utf8_lossy(&f.text))).collect::<Vec<_>>()}));
            }
        }
    });
    rep
}

fn fixed_params() -> Params {
    Params { k: 9, segment_size: 30, min_match_len: 12, pack_size: 50, threads: 1, queue_capacity: 1 << 30, fallback_frac: 0.0 }
}
