//! C13 archive container returns exactly what was stored: ragc-common/src/archive.rs and
//! varint.rs vs Model/Container.lean + Model/Varint.lean, plus the round-trip law evaluated on
//! the real code against an independent commit log kept in Rust.
//!
//! The history generator, the textual op encoding (the same as the `arch-run` request), the
//! expected-log oracle and the writer wrapper are `pub`: C14 builds its archives with them.
use crate::model::{hex, unhex};
use crate::props::guarded;
use crate::report::Report;
use crate::rng::Rng;
use crate::Ctx;
use ragc_common::archive::Archive;
use ragc_common::varint::{decode_varint, encode_varint};
use serde_json::json;

// ---------------------------------------------------------------------------------------------
// operations and their textual encoding
// ---------------------------------------------------------------------------------------------

#[derive(Clone, Debug, PartialEq, Eq)]
pub enum Op {
    Reg(Vec<u8>),
    Add(usize, Vec<u8>, u64),
    Buf(usize, Vec<u8>, u64),
    Flush,
    SetRaw(usize, u64),
}

pub fn ops_to_string(ops: &[Op]) -> String {
    if ops.is_empty() {
        return "-".to_string();
    }
    let v: Vec<String> = ops
        .iter()
        .map(|o| match o {
            Op::Reg(n) => format!("r,{}", hex(n)),
            Op::Add(s, d, m) => format!("a,{},{},{}", s, hex(d), m),
            Op::Buf(s, d, m) => format!("b,{},{},{}", s, hex(d), m),
            Op::Flush => "f".to_string(),
            Op::SetRaw(s, v) => format!("s,{},{}", s, v),
        })
        .collect();
    v.join(";")
}

pub fn parse_ops(s: &str) -> Option<Vec<Op>> {
    if s == "-" {
        return Some(vec![]);
    }
    let mut out = vec![];
    for t in s.split(';') {
        let f: Vec<&str> = t.split(',').collect();
        let op = match f.as_slice() {
            ["r", n] => Op::Reg(unhex(n)?),
            ["a", s, d, m] => Op::Add(s.parse().ok()?, unhex(d)?, m.parse().ok()?),
            ["b", s, d, m] => Op::Buf(s.parse().ok()?, unhex(d)?, m.parse().ok()?),
            ["f"] => Op::Flush,
            ["s", s, v] => Op::SetRaw(s.parse().ok()?, v.parse().ok()?),
            _ => return None,
        };
        out.push(op);
    }
    Some(out)
}

#[derive(Clone, Debug, PartialEq, Eq)]
pub enum ReadOp {
    ById(usize, usize),
    Next(usize),
}

pub fn reads_to_string(r: &[ReadOp]) -> String {
    if r.is_empty() {
        return "-".to_string();
    }
    let v: Vec<String> = r
        .iter()
        .map(|o| match o {
            ReadOp::ById(s, p) => format!("i,{s},{p}"),
            ReadOp::Next(s) => format!("n,{s}"),
        })
        .collect();
    v.join(";")
}

pub fn parse_reads(s: &str) -> Option<Vec<ReadOp>> {
    if s == "-" {
        return Some(vec![]);
    }
    let mut out = vec![];
    for t in s.split(';') {
        let f: Vec<&str> = t.split(',').collect();
        out.push(match f.as_slice() {
            ["i", s, p] => ReadOp::ById(s.parse().ok()?, p.parse().ok()?),
            ["n", s] => ReadOp::Next(s.parse().ok()?),
            _ => return None,
        });
    }
    Some(out)
}

fn join_or(sep: &str, xs: &[String]) -> String {
    if xs.is_empty() {
        "-".to_string()
    } else {
        xs.join(sep)
    }
}

fn blob_tok(data: &[u8], meta: u64) -> String {
    format!("{}/{}", meta, hex(data))
}

// ---------------------------------------------------------------------------------------------
// generators
// ---------------------------------------------------------------------------------------------

pub const BOUNDARY: [u64; 19] = [
    0,
    1,
    255,
    256,
    65535,
    65536,
    (1 << 24) - 1,
    1 << 24,
    (1 << 32) - 1,
    1 << 32,
    (1 << 40) - 1,
    1 << 40,
    (1 << 48) - 1,
    1 << 48,
    (1 << 56) - 1,
    1 << 56,
    (1 << 63) - 1,
    1 << 63,
    u64::MAX,
];

/// metadata / raw sizes: mostly byte-length boundaries, otherwise a random value of random width
pub fn gen_u64(rng: &mut Rng) -> u64 {
    if rng.chance(3, 4) {
        *rng.pick(&BOUNDARY)
    } else {
        rng.next() >> rng.below(64)
    }
}

/// `len` data bytes: random, or (~20%) runs of 0x00 / 0xFF
pub fn gen_data(rng: &mut Rng, len: usize) -> Vec<u8> {
    let mut d = Vec::with_capacity(len);
    if rng.chance(1, 5) {
        let max_run = if len > 200 { 300 } else { 20 };
        while d.len() < len {
            let b = match rng.below(10) {
                0..=3 => 0x00u8,
                4..=8 => 0xFF,
                _ => rng.below(256) as u8,
            };
            let run = rng.range(1, max_run) as usize;
            for _ in 0..run.min(len - d.len()) {
                d.push(b);
            }
        }
    } else {
        while d.len() < len {
            let x = rng.next().to_le_bytes();
            let k = (len - d.len()).min(8);
            d.extend_from_slice(&x[..k]);
        }
    }
    d
}

#[derive(Clone, Debug)]
pub struct GenCfg {
    pub max_ops: u64,
    /// per-mille of adds that carry a big (>= 1 kB) blob
    pub big_permille: u64,
    pub big_max_count: usize,
    /// largest big blob (<= 65536)
    pub big_max_len: usize,
}

impl GenCfg {
    pub fn c13() -> GenCfg {
        GenCfg { max_ops: 120, big_permille: 30, big_max_count: 3, big_max_len: 65536 }
    }
}

fn gen_name(rng: &mut Rng) -> Vec<u8> {
    let len = rng.range(0, 12) as usize;
    // a small alphabet now and then so that random names collide
    let small = rng.chance(1, 4);
    (0..len).map(|_| if small { *rng.pick(b"ab ~") } else { rng.range(0x20, 0x7e) as u8 }).collect()
}

fn gen_sid(rng: &mut Rng, nstreams: usize, invalid_permille: u64) -> usize {
    if nstreams == 0 || rng.chance(invalid_permille, 1000) {
        return if rng.chance(1, 2) { nstreams } else { nstreams + 3 };
    }
    if rng.chance(1, 2) {
        // concentrate on a few streams so that buffered and immediate parts interleave
        rng.below(nstreams.min(3) as u64) as usize
    } else {
        rng.below(nstreams as u64) as usize
    }
}

/// A random history over the five writer operations (see the module doc of DESIGN C13).
pub fn gen_history(rng: &mut Rng, cfg: &GenCfg) -> Vec<Op> {
    // Bulk mode (what the compressor does: hundreds of buffered parts over several streams, one
    // flush at the end): many parts per stream inside ONE flush, buffered out of stream-id order.
    if rng.chance(1, 5) {
        let ns = rng.range(2, 8) as usize;
        let mut ops: Vec<Op> = (0..ns).map(|_| Op::Reg(gen_name(rng))).collect();
        let total = rng.range(25, 150) as usize;
        let flush_mid = if rng.chance(1, 3) { Some(rng.below(total as u64) as usize) } else { None };
        for i in 0..total {
            let sid = rng.below(ns as u64) as usize;
            let len = if rng.chance(1, 12) { 0 } else { rng.range(1, 24) as usize };
            ops.push(Op::Buf(sid, gen_data(rng, len), if rng.chance(1, 6) { gen_u64(rng) } else { i as u64 }));
            if flush_mid == Some(i) {
                ops.push(Op::Flush);
            }
            if rng.chance(1, 25) {
                ops.push(Op::Add(sid, gen_data(rng, 5), i as u64));
            }
        }
        ops.push(Op::Flush);
        return ops;
    }
    let nops = if rng.chance(1, 3) { rng.range(1, 12.min(cfg.max_ops)) } else { rng.range(1, cfg.max_ops) } as usize;
    let mut names: Vec<Vec<u8>> = vec![];
    let mut ops: Vec<Op> = vec![];
    let mut nbig = 0usize;
    // sometimes work before any stream exists (every id is invalid then)
    let allow_early = rng.chance(1, 12);
    for _ in 0..nops {
        let n = names.len();
        let mut kind = rng.below(100);
        if n == 0 && !allow_early {
            kind = 0;
        }
        if kind < 18 {
            let name = if n > 0 && (rng.chance(1, 5) || n >= 40) { rng.pick(&names).clone() } else { gen_name(rng) };
            if !names.contains(&name) {
                names.push(name.clone());
            }
            ops.push(Op::Reg(name));
        } else if kind < 82 {
            let sid = gen_sid(rng, n, 20);
            let len = if nbig < cfg.big_max_count && rng.chance(cfg.big_permille, 1000) {
                nbig += 1;
                if rng.chance(1, 8) {
                    cfg.big_max_len
                } else {
                    // log-uniform in 1 kB .. big_max_len
                    let mut hi = 1024usize;
                    while hi < cfg.big_max_len && rng.chance(3, 4) {
                        hi *= 2;
                    }
                    let hi = hi.min(cfg.big_max_len);
                    rng.range((hi / 2).max(1024) as u64, hi.max(1024) as u64) as usize
                }
            } else if rng.chance(1, 10) {
                0
            } else {
                rng.range(1, 40) as usize
            };
            let data = gen_data(rng, len);
            let meta = gen_u64(rng);
            if kind < 50 {
                ops.push(Op::Add(sid, data, meta));
            } else {
                ops.push(Op::Buf(sid, data, meta));
            }
        } else if kind < 92 {
            ops.push(Op::Flush);
        } else {
            let sid = gen_sid(rng, n, 50);
            ops.push(Op::SetRaw(sid, gen_u64(rng)));
        }
    }
    if !rng.chance(1, 10) {
        ops.push(Op::Flush);
    }
    ops
}

// ---------------------------------------------------------------------------------------------
// the commit log the container is supposed to implement (independent of archive.rs)
// ---------------------------------------------------------------------------------------------

#[derive(Default, Debug)]
pub struct Expect {
    pub names: Vec<Vec<u8>>,
    pub parts: Vec<Vec<(Vec<u8>, u64)>>,
    pub raw: Vec<u64>,
    pub pending: Vec<(usize, Vec<u8>, u64)>,
    pub results: Vec<String>,
    // what the history exercised
    pub n_buffered_committed: u64,
    pub n_immediate_committed: u64,
    pub n_flush_with_pending: u64,
    pub n_empty_part: u64,
    pub n_nonempty_part: u64,
    pub n_reregister: u64,
    pub n_invalid_id: u64,
    pub n_big_part: u64,
    pub n_meta_max: u64,
    pub n_interleaved: u64,
}

impl Expect {
    fn commit(&mut self, sid: usize, data: &[u8], meta: u64) {
        if data.is_empty() {
            self.n_empty_part += 1;
        } else {
            self.n_nonempty_part += 1;
        }
        if data.len() >= 1024 {
            self.n_big_part += 1;
        }
        if meta == u64::MAX {
            self.n_meta_max += 1;
        }
        self.parts[sid].push((data.to_vec(), meta));
    }

    pub fn apply(&mut self, op: &Op) {
        match op {
            Op::Reg(name) => {
                let id = match self.names.iter().position(|n| n == name) {
                    Some(i) => {
                        self.n_reregister += 1;
                        i
                    }
                    None => {
                        self.names.push(name.clone());
                        self.parts.push(vec![]);
                        self.raw.push(0);
                        self.names.len() - 1
                    }
                };
                self.results.push(id.to_string());
            }
            Op::Add(sid, data, meta) => {
                if *sid < self.names.len() {
                    // a part buffered earlier for the same stream will be committed after this one
                    if self.pending.iter().any(|p| p.0 == *sid) {
                        self.n_interleaved += 1;
                    }
                    self.commit(*sid, data, *meta);
                    self.n_immediate_committed += 1;
                    self.results.push("k".into());
                } else {
                    self.n_invalid_id += 1;
                    self.results.push("e".into());
                }
            }
            Op::Buf(sid, data, meta) => {
                self.pending.push((*sid, data.clone(), *meta));
                self.results.push("k".into());
            }
            Op::Flush => {
                let mut p = std::mem::take(&mut self.pending);
                if !p.is_empty() {
                    self.n_flush_with_pending += 1;
                }
                p.sort_by_key(|x| x.0); // stable
                let mut ok = true;
                for (sid, data, meta) in p {
                    if sid >= self.names.len() {
                        ok = false;
                        self.n_invalid_id += 1;
                        break; // the rest of the buffer is dropped
                    }
                    self.commit(sid, &data, meta);
                    self.n_buffered_committed += 1;
                }
                self.results.push(if ok { "k" } else { "e" }.into());
            }
            Op::SetRaw(sid, v) => {
                if *sid < self.names.len() {
                    self.raw[*sid] = *v;
                }
                self.results.push("k".into());
            }
        }
    }

    pub fn of(ops: &[Op]) -> Expect {
        let mut e = Expect::default();
        for op in ops {
            e.apply(op);
        }
        e
    }

    /// what a committed part reads back as (empty data loses its metadata)
    pub fn read_back(&self, sid: usize, pid: usize) -> (Vec<u8>, u64) {
        let (d, m) = &self.parts[sid][pid];
        if d.is_empty() {
            (vec![], 0)
        } else {
            (d.clone(), *m)
        }
    }

    /// the `<log>` field of the `arch-run` reply
    pub fn log_string(&self) -> String {
        let v: Vec<String> = self
            .names
            .iter()
            .zip(&self.parts)
            .map(|(n, ps)| {
                let p: Vec<String> = ps.iter().map(|(d, m)| blob_tok(d, *m)).collect();
                format!("{}:{}", hex(n), join_or(",", &p))
            })
            .collect();
        join_or("|", &v)
    }
}

// ---------------------------------------------------------------------------------------------
// the real code
// ---------------------------------------------------------------------------------------------

fn name_str(n: &[u8]) -> String {
    String::from_utf8_lossy(n).to_string()
}

/// Apply `ops` to a real writer on `path`, close it and read the file back.
/// Outer `Err` = panic message, inner `Err` = an `anyhow` error from open/close.
pub fn write_archive(path: &str, ops: &[Op]) -> Result<Result<(Vec<String>, Vec<u8>), String>, String> {
    guarded(|| {
        let mut a = Archive::new_writer();
        a.open(path).map_err(|e| format!("writer open: {e:#}"))?;
        let mut res = Vec::with_capacity(ops.len());
        for op in ops {
            match op {
                Op::Reg(n) => res.push(a.register_stream(&name_str(n)).to_string()),
                Op::Add(s, d, m) => res.push(if a.add_part(*s, d, *m).is_ok() { "k" } else { "e" }.to_string()),
                Op::Buf(s, d, m) => {
                    a.add_part_buffered(*s, d.clone(), *m);
                    res.push("k".to_string());
                }
                Op::Flush => res.push(if a.flush_buffers().is_ok() { "k" } else { "e" }.to_string()),
                Op::SetRaw(s, v) => {
                    a.set_raw_size(*s, *v);
                    res.push("k".to_string());
                }
            }
        }
        a.close().map_err(|e| format!("writer close: {e:#}"))?;
        drop(a);
        let bytes = std::fs::read(path).map_err(|e| format!("read back: {e}"))?;
        Ok((res, bytes))
    })
}

/// Largest offset `lseek` accepts on the file system of `workdir`.
pub fn probe_seekmax(workdir: &str) -> u64 {
    use std::os::unix::io::AsRawFd;
    let _ = std::fs::create_dir_all(workdir);
    let path = format!("{}/seekprobe_{}.tmp", workdir, std::process::id());
    let f = match std::fs::File::create(&path) {
        Ok(f) => f,
        Err(_) => return i64::MAX as u64,
    };
    let fd = f.as_raw_fd();
    let ok = |off: u64| unsafe { libc::lseek(fd, off as i64, libc::SEEK_SET) >= 0 };
    let max = i64::MAX as u64;
    let r = if ok(max) {
        max
    } else {
        // invariant: ok(lo), !ok(hi)
        let (mut lo, mut hi) = (0u64, max);
        while hi - lo > 1 {
            let mid = lo + (hi - lo) / 2;
            if ok(mid) {
                lo = mid;
            } else {
                hi = mid;
            }
        }
        lo
    };
    drop(f);
    let _ = std::fs::remove_file(&path);
    r
}

/// Read sequence for one archive: every (stream, part) by id, every stream sequentially to the
/// end and two steps beyond, a few out-of-range ids; all shuffled together.
pub fn gen_reads(rng: &mut Rng, exp: &Expect) -> Vec<ReadOp> {
    let ns = exp.names.len();
    let mut r = vec![];
    for s in 0..ns {
        for p in 0..exp.parts[s].len() {
            r.push(ReadOp::ById(s, p));
        }
        for _ in 0..exp.parts[s].len() + 2 {
            r.push(ReadOp::Next(s));
        }
    }
    r.push(ReadOp::ById(ns, 0));
    r.push(ReadOp::ById(ns + 3, 1));
    r.push(ReadOp::Next(ns));
    if rng.chance(1, 2) {
        r.push(ReadOp::Next(ns + 3));
    }
    for _ in 0..2.min(ns) {
        let s = rng.below(ns as u64) as usize;
        r.push(ReadOp::ById(s, exp.parts[s].len()));
        if rng.chance(1, 2) {
            r.push(ReadOp::ById(s, exp.parts[s].len() + 5));
        }
    }
    // Fisher-Yates
    for i in (1..r.len()).rev() {
        let j = rng.below(i as u64 + 1) as usize;
        r.swap(i, j);
    }
    r
}

/// expected answers of a read sequence, from the commit log
fn expected_reads(exp: &Expect, reads: &[ReadOp]) -> Vec<String> {
    let mut cur = vec![0usize; exp.names.len()];
    reads
        .iter()
        .map(|r| match r {
            ReadOp::ById(s, p) => {
                if *s < exp.names.len() && *p < exp.parts[*s].len() {
                    let (d, m) = exp.read_back(*s, *p);
                    blob_tok(&d, m)
                } else {
                    "E".to_string()
                }
            }
            ReadOp::Next(s) => {
                if *s >= exp.names.len() {
                    "E".to_string()
                } else if cur[*s] >= exp.parts[*s].len() {
                    "none".to_string()
                } else {
                    let (d, m) = exp.read_back(*s, cur[*s]);
                    cur[*s] += 1;
                    blob_tok(&d, m)
                }
            }
        })
        .collect()
}

/// What the real reader showed, canonicalised like the driver replies.
struct ReaderObs {
    meta: String,
    parts: String,
    reads: String,
    /// violations of the round-trip property (first few)
    errs: Vec<String>,
}

fn observe_reader(path: &str, exp: &Expect, reads: &[ReadOp]) -> Result<ReaderObs, String> {
    let mut errs: Vec<String> = vec![];
    let mut a = Archive::new_reader();
    a.open(path).map_err(|e| format!("reader open failed: {e:#}"))?;
    let mut err = |m: String| {
        if errs.len() < 4 {
            errs.push(m);
        }
    };
    // directory
    let names = a.get_stream_names();
    let want_names: Vec<String> = exp.names.iter().map(|n| name_str(n)).collect();
    if names != want_names {
        err(format!("get_stream_names = {:?}, registered {:?}", names, want_names));
    }
    let ns = a.get_num_streams();
    if ns != exp.names.len() {
        err(format!("get_num_streams = {}, registered {}", ns, exp.names.len()));
    }
    for (i, n) in want_names.iter().enumerate() {
        let got = a.get_stream_id(n);
        if got != Some(i) {
            err(format!("get_stream_id({:?}) = {:?}, expected Some({})", n, got, i));
        }
    }
    let unreg = "~~never-registered~~";
    if a.get_stream_id(unreg).is_some() {
        err(format!("get_stream_id({unreg:?}) is Some"));
    }
    if !exp.names.iter().any(|n| n.is_empty()) && a.get_stream_id("").is_some() {
        err("get_stream_id(\"\") is Some although the empty name was never registered".to_string());
    }
    for i in 0..exp.names.len() {
        if a.get_num_parts(i) != exp.parts[i].len() {
            err(format!("get_num_parts({}) = {}, committed {}", i, a.get_num_parts(i), exp.parts[i].len()));
        }
        if a.get_raw_size(i) != exp.raw[i] {
            err(format!("get_raw_size({}) = {}, last set {}", i, a.get_raw_size(i), exp.raw[i]));
        }
    }
    if a.get_num_parts(exp.names.len()) != 0 || a.get_raw_size(exp.names.len()) != 0 {
        err("get_num_parts/get_raw_size of an unknown stream id is not 0".to_string());
    }
    // canonical meta string (real getters only)
    let sids: Vec<usize> = (0..ns).collect();
    let meta = format!(
        "ok {} {} {} {}",
        join_or(",", &names.iter().map(|n| hex(n.as_bytes())).collect::<Vec<_>>()),
        join_or(
            ",",
            &names.iter().map(|n| a.get_stream_id(n).map(|v| v.to_string()).unwrap_or("none".into())).collect::<Vec<_>>()
        ),
        join_or(",", &sids.iter().map(|&i| a.get_num_parts(i).to_string()).collect::<Vec<_>>()),
        join_or(",", &sids.iter().map(|&i| a.get_raw_size(i).to_string()).collect::<Vec<_>>()),
    );
    // all parts by id, in order (the `parts` field of arch-open)
    let mut per_stream = vec![];
    for s in 0..ns {
        let mut toks = vec![];
        for p in 0..a.get_num_parts(s) {
            toks.push(match a.get_part_by_id(s, p) {
                Ok((d, m)) => blob_tok(&d, m),
                Err(_) => "E".to_string(),
            });
        }
        per_stream.push(join_or(",", &toks));
    }
    let parts = join_or("|", &per_stream);
    // the read sequence
    let want = expected_reads(exp, reads);
    let mut got = Vec::with_capacity(reads.len());
    for (k, r) in reads.iter().enumerate() {
        let tok = match r {
            ReadOp::ById(s, p) => match a.get_part_by_id(*s, *p) {
                Ok((d, m)) => blob_tok(&d, m),
                Err(_) => "E".to_string(),
            },
            ReadOp::Next(s) => match a.get_part(*s) {
                Ok(Some((d, m))) => blob_tok(&d, m),
                Ok(None) => "none".to_string(),
                Err(_) => "E".to_string(),
            },
        };
        if tok != want[k] {
            err(format!("read #{k} {:?} returned {}, stored {}", r, crate::report::clip(&tok), crate::report::clip(&want[k])));
        }
        got.push(tok);
    }
    let _ = a.close();
    Ok(ReaderObs { meta, parts, reads: join_or(",", &got), errs })
}

// ---------------------------------------------------------------------------------------------
// one history
// ---------------------------------------------------------------------------------------------

fn one_history(ctx: &mut Ctx, rep: &mut Report, seekmax: u64, ops: &[Op], reads_in: Option<Vec<ReadOp>>, rng: &mut Rng, tag: &str) {
    let ops_str = ops_to_string(ops);
    let exp = Expect::of(ops);
    let reads = reads_in.unwrap_or_else(|| gen_reads(rng, &exp));
    let reads_str = reads_to_string(&reads);
    let case = json!({"ops": ops_str, "reads": reads_str});
    rep.case(&ops_str, exp.n_nonempty_part > 0);
    let tally = [
        ("branch_buffered", exp.n_buffered_committed > 0),
        ("branch_immediate", exp.n_immediate_committed > 0),
        ("branch_multi_flush", exp.n_flush_with_pending >= 2),
        ("branch_empty_part", exp.n_empty_part > 0),
        ("branch_reregister", exp.n_reregister > 0),
        ("branch_invalid_id", exp.n_invalid_id > 0),
        ("branch_big_part", exp.n_big_part > 0),
        ("branch_meta_u64max", exp.n_meta_max > 0),
        ("branch_no_final_flush", !exp.pending.is_empty()),
        ("branch_interleaved", exp.n_interleaved > 0 && exp.n_buffered_committed > 0),
        ("branch_no_streams", exp.names.is_empty()),
        ("branch_empty_name", exp.names.iter().any(|n| n.is_empty())),
    ];
    for (name, hit) in tally {
        if hit {
            rep.count(name);
        }
    }
    rep.add("parts_committed", exp.n_empty_part + exp.n_nonempty_part);

    let path = format!("{}/c13_{}_{}.agc", ctx.workdir, std::process::id(), tag);
    // writer
    let (results, file) = match write_archive(&path, ops) {
        Ok(Ok(x)) => x,
        Ok(Err(e)) => {
            rep.oracle_fail("container-roundtrip", &format!("writer failed: {e}"), case);
            let _ = std::fs::remove_file(&path);
            return;
        }
        Err(p) => {
            rep.oracle_fail("container-panic", &format!("writer panicked: {p}"), case);
            let _ = std::fs::remove_file(&path);
            return;
        }
    };
    rep.add("file_bytes", file.len() as u64);
    let results_str = join_or(",", &results);
    if results != exp.results {
        rep.oracle_fail(
            "container-roundtrip",
            &format!("per-op results {} differ from the commit-log semantics {}", results_str, join_or(",", &exp.results)),
            case.clone(),
        );
    }
    let file_hex = hex(&file);
    if let Some(m) = ctx.ask(&format!("arch-run {}", ops_str)) {
        let f: Vec<&str> = m.split(' ').collect();
        if f.len() != 5 || f[0] != "ok" {
            rep.disagree("arch-run", case.clone(), &m, &format!("ok {} {} ..", crate::report::clip(&file_hex), results_str));
        } else {
            if f[1] != file_hex {
                let at = f[1].bytes().zip(file_hex.bytes()).position(|(a, b)| a != b).unwrap_or(f[1].len().min(file_hex.len()));
                rep.disagree(
                    "arch-run-file",
                    case.clone(),
                    &format!("len {} first difference at hex index {}: ..{}", f[1].len(), at, &f[1][at.saturating_sub(16)..(at + 32).min(f[1].len())]),
                    &format!("len {} ..{}", file_hex.len(), &file_hex[at.saturating_sub(16).min(file_hex.len())..(at + 32).min(file_hex.len())]),
                );
            }
            if f[2] != results_str {
                rep.disagree("arch-run-results", case.clone(), f[2], &results_str);
            }
            // the model's abstract log against the Rust commit log (both specifications)
            let log = exp.log_string();
            if f[3] != log {
                rep.disagree("arch-run-spec-log", case.clone(), f[3], &log);
            }
            if f[4] != exp.pending.len().to_string() {
                rep.disagree("arch-run-spec-pending", case.clone(), f[4], &exp.pending.len().to_string());
            }
        }
    }
    // reader
    let obs = match guarded(|| observe_reader(&path, &exp, &reads)) {
        Ok(Ok(o)) => o,
        Ok(Err(e)) => {
            rep.oracle_fail("container-roundtrip", &e, case);
            let _ = std::fs::remove_file(&path);
            return;
        }
        Err(p) => {
            rep.oracle_fail("container-panic", &format!("reader panicked: {p}"), case);
            let _ = std::fs::remove_file(&path);
            return;
        }
    };
    let _ = std::fs::remove_file(&path);
    for e in &obs.errs {
        rep.oracle_fail("container-roundtrip", e, case.clone());
    }
    if ctx.model.is_some() {
        if file_hex.len() > 600_000 {
            rep.count("model_reader_skipped_big_file");
        } else {
            if let Some(m) = ctx.ask(&format!("arch-meta rel {} {}", seekmax, file_hex)) {
                if m != obs.meta {
                    rep.disagree("arch-meta", case.clone(), &m, &obs.meta);
                }
            }
            if let Some(m) = ctx.ask(&format!("arch-open rel {} {}", seekmax, file_hex)) {
                // `ok <dir> <parts>`: the real reader does not expose offsets, compare the parts
                let f: Vec<&str> = m.split(' ').collect();
                if f.len() != 3 || f[0] != "ok" {
                    rep.disagree("arch-open", case.clone(), &m, &format!("ok <dir> {}", obs.parts));
                } else if f[2] != obs.parts {
                    rep.disagree("arch-open-parts", case.clone(), f[2], &obs.parts);
                }
            }
            if let Some(m) = ctx.ask(&format!("arch-reads rel {} {} {}", seekmax, file_hex, reads_str)) {
                let real = format!("ok {}", obs.reads);
                if m != real {
                    rep.disagree("arch-reads", case.clone(), &m, &real);
                }
            }
        }
    }
    if rep.samples.len() < 4 && ops_str.len() < 700 && exp.n_buffered_committed > 0 && exp.n_immediate_committed > 0 && exp.names.len() >= 2 {
        rep.sample(json!({"ops": ops_str, "results": results_str, "file": file_hex, "log": exp.log_string()}));
    }
}

// ---------------------------------------------------------------------------------------------
// varint section
// ---------------------------------------------------------------------------------------------

fn sig_bytes(v: u64) -> usize {
    ((64 - v.leading_zeros() as usize) + 7) / 8
}

fn one_varint(ctx: &mut Ctx, rep: &mut Report, v: u64, tail: &[u8]) {
    rep.count("varint_values");
    let case = json!({"varint": v.to_string(), "tail": hex(tail)});
    let enc = match guarded(|| encode_varint(v)) {
        Ok(e) => e,
        Err(p) => {
            rep.oracle_fail("varint-panic", &format!("encode_varint({v}) panicked: {p}"), case);
            return;
        }
    };
    if let Some(m) = ctx.ask(&format!("varint-enc {}", v)) {
        let real = format!("ok {}", hex(&enc));
        if m != real {
            rep.disagree("varint-enc", case.clone(), &m, &real);
        }
    }
    // from-scratch expected encoding
    let k = sig_bytes(v);
    let mut want = vec![k as u8];
    want.extend_from_slice(&v.to_be_bytes()[8 - k..]);
    if enc != want {
        rep.oracle_fail("varint-roundtrip", &format!("encode_varint({v}) = {}, expected {} (1 + {k} significant bytes)", hex(&enc), hex(&want)), case.clone());
    }
    let mut input = enc.clone();
    input.extend_from_slice(tail);
    let dec = guarded(|| decode_varint(&input));
    let real = match &dec {
        Ok(Ok((val, n))) => format!("ok {} {}", val, hex(input.get(*n..).unwrap_or(&[]))),
        Ok(Err(_)) => "err".to_string(),
        Err(p) => format!("panic {p}"),
    };
    if let Some(m) = ctx.ask(&format!("varint-dec rel {}", hex(&input))) {
        if m != real {
            rep.disagree("varint-dec", case.clone(), &m, &real);
        }
    }
    match dec {
        Ok(Ok((val, n))) => {
            if val != v || n != enc.len() {
                rep.oracle_fail("varint-roundtrip", &format!("decode(encode({v}) ++ tail) = ({val}, {n}), expected ({v}, {})", enc.len()), case.clone());
            }
        }
        Ok(Err(e)) => rep.oracle_fail("varint-roundtrip", &format!("decode(encode({v})) failed: {e}"), case.clone()),
        Err(p) => rep.oracle_fail("varint-panic", &format!("decode_varint panicked: {p}"), case.clone()),
    }
    // every strict prefix of the encoding is an error (correspondence only for the longest one)
    if enc.len() > 1 {
        let cut = &enc[..enc.len() - 1];
        let real = match guarded(|| decode_varint(cut)) {
            Ok(Ok((val, n))) => format!("ok {} {}", val, hex(cut.get(n..).unwrap_or(&[]))),
            Ok(Err(_)) => "err".to_string(),
            Err(p) => format!("panic {p}"),
        };
        if real != "err" {
            rep.oracle_fail("varint-roundtrip", &format!("decoding the truncated encoding {} gave {real}", hex(cut)), case.clone());
        }
        if let Some(m) = ctx.ask(&format!("varint-dec rel {}", hex(cut))) {
            if m != real {
                rep.disagree("varint-dec", json!({"varint_raw": hex(cut)}), &m, &real);
            }
        }
    }
}

/// arbitrary bytes through `decode_varint` (length byte 0..=40, never 255: the release build's
/// returned byte count wraps there and no caller uses it) — correspondence only
fn one_varint_raw(ctx: &mut Ctx, rep: &mut Report, input: &[u8]) {
    rep.count("varint_raw_inputs");
    let real = match guarded(|| decode_varint(input)) {
        Ok(Ok((val, n))) => format!("ok {} {}", val, hex(input.get(n..).unwrap_or(&[]))),
        Ok(Err(_)) => "err".to_string(),
        Err(p) => format!("panic {p}"),
    };
    if let Some(m) = ctx.ask(&format!("varint-dec rel {}", hex(input))) {
        if m != real {
            rep.disagree("varint-dec", json!({"varint_raw": hex(input)}), &m, &real);
        }
    }
}

fn varint_section(ctx: &mut Ctx, rep: &mut Report) {
    let mut rng = Rng::new(ctx.seed, 1313, 0);
    let mut vals: Vec<u64> = vec![];
    for b in BOUNDARY {
        vals.push(b);
        vals.push(b.wrapping_add(1));
        vals.push(b.wrapping_sub(1));
    }
    for k in 0..64 {
        vals.push(1u64 << k);
    }
    let n = ctx.t(2000, 40000);
    for _ in 0..n {
        vals.push(rng.next() >> rng.below(64));
    }
    for v in vals {
        let tl = if rng.chance(1, 3) { 0 } else { rng.range(1, 12) as usize };
        let tail = gen_data(&mut rng, tl);
        one_varint(ctx, rep, v, &tail);
    }
    for _ in 0..ctx.t(500, 5000) {
        let l = rng.range(0, 50) as usize;
        let mut inp = gen_data(&mut rng, l);
        if !inp.is_empty() {
            inp[0] = rng.range(0, 40) as u8;
        }
        one_varint_raw(ctx, rep, &inp);
    }
}

// ---------------------------------------------------------------------------------------------

pub fn run(ctx: &mut Ctx) -> Report {
    let mut rep = Report::new(
        "C13",
        "random histories (1..120 ops) over register_stream / add_part / add_part_buffered / flush_buffers / set_raw_size \
         (<= 40 streams, data 0..=65536 bytes, metadata and raw sizes from byte-length boundaries and random u64, ~2% invalid \
         stream ids, ~10% without final flush), written and re-read through the real Archive; a case is non-trivial if at \
         least one non-empty part was committed; distinct by the full op list. Plus a varint section (counters varint_*).",
    );
    let _ = std::fs::create_dir_all(&ctx.workdir);
    let seekmax = probe_seekmax(&ctx.workdir);
    rep.notes.push(format!("seekmax (largest offset lseek accepts in {}) = {}", ctx.workdir, seekmax));
    if let Some(r) = ctx.replay.clone() {
        let c = &r["case"];
        let mut rng = Rng::new(ctx.seed, 13, 0);
        if let Some(v) = c["varint"].as_str() {
            let tail = unhex(c["tail"].as_str().unwrap_or("-")).unwrap_or_default();
            one_varint(ctx, &mut rep, v.parse().unwrap_or(0), &tail);
        } else if let Some(h) = c["varint_raw"].as_str() {
            one_varint_raw(ctx, &mut rep, &unhex(h).unwrap_or_default());
        } else {
            let ops = parse_ops(c["ops"].as_str().unwrap_or("-")).unwrap_or_default();
            let reads = c["reads"].as_str().and_then(parse_reads);
            one_history(ctx, &mut rep, seekmax, &ops, reads, &mut rng, "replay");
        }
        return rep;
    }
    varint_section(ctx, &mut rep);
    // a few fixed tiny histories (empty history, only registrations, only an unflushed buffer)
    let fixed: Vec<Vec<Op>> = vec![
        vec![],
        vec![Op::Flush],
        vec![Op::Reg(vec![])],
        vec![Op::Reg(b"a".to_vec()), Op::Reg(b"a".to_vec()), Op::Reg(vec![])],
        vec![Op::Reg(b"a".to_vec()), Op::Buf(0, b"x".to_vec(), 1)],
        vec![Op::Buf(0, b"x".to_vec(), 1), Op::Reg(b"a".to_vec()), Op::Flush],
        vec![Op::Reg(b"a".to_vec()), Op::Buf(1, b"x".to_vec(), 1), Op::Buf(0, b"y".to_vec(), 2), Op::Flush, Op::Flush],
        vec![Op::Reg(b"a".to_vec()), Op::Add(0, vec![], u64::MAX), Op::Add(0, vec![0xff; 9], u64::MAX), Op::SetRaw(0, u64::MAX)],
        vec![Op::Add(0, b"x".to_vec(), 1), Op::SetRaw(0, 5)],
    ];
    for (i, ops) in fixed.iter().enumerate() {
        let mut rng = Rng::new(ctx.seed, 13, 1_000_000 + i as u64);
        one_history(ctx, &mut rep, seekmax, ops, None, &mut rng, &format!("fixed{i}"));
    }
    let n = ctx.t(400, 6000);
    let cfg = GenCfg::c13();
    for c in 0..n {
        let mut rng = Rng::new(ctx.seed, 13, c);
        let ops = gen_history(&mut rng, &cfg);
        one_history(ctx, &mut rep, seekmax, &ops, None, &mut rng, &c.to_string());
    }
    rep
}
