//! C11 splitter selection: splitters.rs `determine_splitters` / `_streaming` / `_streaming_first_sample`
//! and kmer_extract.rs `remove_non_singletons*` vs Model/Splitters.lean, plus the laws themselves on
//! the real code against an independent from-scratch k-mer count (HashMap over packed windows).
use crate::gen::genomes::{self, Presentation};
use crate::model::{hex, nat_list, unhex};
use crate::props::guarded;
use crate::report::Report;
use crate::rng::Rng;
use crate::Ctx;
use ahash::AHashSet;
use ragc_core::kmer_extract::{remove_non_singletons, remove_non_singletons_with_duplicates};
use ragc_core::segment::split_at_splitters_with_size;
use ragc_core::splitters::{determine_splitters, determine_splitters_streaming, determine_splitters_streaming_first_sample};
use serde_json::{json, Value};
use std::collections::HashMap;
use std::path::Path;

type Sets = (AHashSet<u64>, AHashSet<u64>, AHashSet<u64>);

/// numeric code -> FASTA letter (0..15 = ACGTNRYSWKMBDHVU, 30 = any other letter)
fn letter(code: u8) -> u8 {
    if (code as usize) < 16 { genomes::LETTERS[code as usize] } else { b'X' }
}

fn sorted(s: &AHashSet<u64>) -> Vec<u64> {
    let mut v: Vec<u64> = s.iter().copied().collect();
    v.sort_unstable();
    v
}

fn canon(r: &Sets) -> String {
    format!("ok {} | {} | {}", nat_list(&sorted(&r.0)), nat_list(&sorted(&r.1)), nat_list(&sorted(&r.2)))
}

fn pack(w: &[u8]) -> u64 {
    let mut v: u128 = 0;
    for (i, &b) in w.iter().enumerate() {
        v |= (b as u128) << (62 - 2 * i);
    }
    v as u64
}

/// from-scratch multiset of canonical k-mers of a reference
fn scratch_counts(contigs: &[Vec<u8>], k: usize) -> HashMap<u64, u32> {
    let mut m = HashMap::new();
    for c in contigs {
        let mut run = 0usize;
        for i in 0..c.len() {
            if c[i] > 3 {
                run = 0;
            } else {
                run += 1;
            }
            if run >= k {
                let w = &c[i + 1 - k..=i];
                let d = pack(w);
                let rcw: Vec<u8> = w.iter().rev().map(|&b| 3 - b).collect();
                let r = pack(&rcw);
                *m.entry(d.min(r)).or_insert(0u32) += 1;
            }
        }
    }
    m
}

fn rc_contig(c: &[u8]) -> Vec<u8> {
    c.iter().rev().map(|&b| if b <= 3 { 3 - b } else { b }).collect()
}

#[derive(Clone)]
struct Case {
    k: usize,
    seg: usize,
    contigs: Vec<Vec<u8>>,
    /// records after the first sample in the PanSN file: (header, codes)
    later: Vec<(String, Vec<u8>)>,
    files: bool,
    origin: String,
}

impl Case {
    fn to_json(&self) -> Value {
        json!({
            "k": self.k, "seg": self.seg, "files": self.files, "origin": self.origin,
            "contigs": self.contigs.iter().map(|c| hex(c)).collect::<Vec<_>>(),
            "later": self.later.iter().map(|(h, c)| json!([h, hex(c)])).collect::<Vec<_>>(),
        })
    }
    fn from_json(v: &Value) -> Case {
        Case {
            k: v["k"].as_u64().unwrap_or(3) as usize,
            seg: v["seg"].as_u64().unwrap_or(10) as usize,
            files: v["files"].as_bool().unwrap_or(true),
            origin: "replay".into(),
            contigs: v["contigs"].as_array().map(|a| a.iter().map(|x| unhex(x.as_str().unwrap_or("-")).unwrap_or_default()).collect()).unwrap_or_default(),
            later: v["later"]
                .as_array()
                .map(|a| a.iter().map(|x| (x[0].as_str().unwrap_or("alt#1#c").to_string(), unhex(x[1].as_str().unwrap_or("-")).unwrap_or_default())).collect())
                .unwrap_or_default(),
        }
    }
}

fn render(rng: &mut Rng, recs: &[(String, Vec<u8>)], p: &Presentation) -> Vec<u8> {
    let mut out = vec![];
    for (h, codes) in recs {
        if codes.is_empty() {
            // an empty record needs one (blank) sequence line: without it the reader stops at this
            // record (genome_io.rs read_contig_raw returns None when no line follows the header),
            // which is the FASTA reader's known behaviour (C16/C19), not part of this property
            out.extend_from_slice(format!(">{}\n\n", h).as_bytes());
        } else {
            let letters: Vec<u8> = codes.iter().map(|&c| letter(c)).collect();
            let mut pp = p.clone();
            pp.final_newline = true;
            out.extend(genomes::render_fasta(rng, &[(h.clone(), letters)], &pp));
        }
    }
    out
}

fn rand_seq(rng: &mut Rng, len: usize) -> Vec<u8> {
    (0..len).map(|_| rng.below(4) as u8).collect()
}

fn gen_contig(rng: &mut Rng, k: usize, earlier: &[Vec<u8>]) -> (Vec<u8>, &'static str) {
    let kind = rng.below(20);
    if kind == 0 {
        return (vec![], "empty");
    }
    if kind <= 2 {
        let l = rng.range(1, (k - 1) as u64) as usize;
        return (rand_seq(rng, l), "short");
    }
    if kind <= 4 && !earlier.is_empty() {
        return (rng.pick(earlier).clone(), "dup");
    }
    if kind <= 6 && !earlier.is_empty() {
        let e: &Vec<u8> = rng.pick(earlier);
        return (rc_contig(e), "rcdup");
    }
    if kind <= 9 {
        // a contig that is exactly one k-window (or k+1, 2k-1 symbols) of an earlier contig, possibly
        // reverse-complemented: its k-mers occur twice in the reference although the contig itself
        // holds a single window
        let cands: Vec<&Vec<u8>> = earlier.iter().filter(|e| e.len() >= 2 * k).collect();
        if !cands.is_empty() {
            let e = *rng.pick(&cands);
            let l = *rng.pick(&[k, k, k + 1, 2 * k - 1]);
            let a = rng.below((e.len() - l + 1) as u64) as usize;
            let w = e[a..a + l].to_vec();
            return (if rng.chance(1, 2) { rc_contig(&w) } else { w }, "window-copy");
        }
    }
    let len = match rng.below(10) {
        0 => rng.range(k as u64, (3 * k) as u64),
        1..=3 => rng.range(20, 300),
        4..=7 => rng.range(300, 2000),
        _ => rng.range(2000, 6000),
    } as usize;
    let mut s = if kind == 7 {
        // low complexity: short period repeat
        let period = rng.range(1, 5) as usize;
        let unit = rand_seq(rng, period);
        (0..len).map(|i| unit[i % period]).collect()
    } else {
        rand_seq(rng, len)
    };
    // exact repeats: copy chunks (from this contig or an earlier one) to other places
    if rng.chance(1, 2) && len > 40 {
        for _ in 0..rng.range(1, 4) {
            let l = rng.range(5, (len / 3).max(6) as u64) as usize;
            let src: Vec<u8> = if !earlier.is_empty() && rng.chance(1, 3) {
                let e = rng.pick(earlier);
                if e.len() < l { continue; }
                let a = rng.below((e.len() - l + 1) as u64) as usize;
                if rng.chance(1, 2) { rc_contig(&e[a..a + l]) } else { e[a..a + l].to_vec() }
            } else {
                let a = rng.below((len - l + 1) as u64) as usize;
                s[a..a + l].to_vec()
            };
            let b = rng.below((len - l + 1) as u64) as usize;
            s[b..b + l].copy_from_slice(&src);
        }
    }
    // N runs and other non-ACGT codes
    if rng.chance(2, 5) {
        for _ in 0..rng.range(1, 5) {
            let l = rng.range(1, 12) as usize;
            let a = rng.below(len as u64) as usize;
            let code = if rng.chance(3, 4) { 4u8 } else { *rng.pick(&[5u8, 9, 15, 30]) };
            for x in s.iter_mut().skip(a).take(l) {
                *x = code;
            }
        }
    }
    (s, "plain")
}

fn gen_case(seed: u64, idx: u64) -> Case {
    let mut rng = Rng::new(seed, 11, idx);
    let k = match rng.below(6) {
        0 => rng.range(3, 8),
        1 => 32,
        2 => *rng.pick(&[15u64, 17, 21, 25, 31]),
        _ => rng.range(3, 32),
    } as usize;
    let seg = match rng.below(4) {
        0 => rng.range(10, 40),
        1 | 2 => rng.range(40, 300),
        _ => rng.range(300, 2000),
    } as usize;
    let n = rng.range(1, 8) as usize;
    let mut contigs: Vec<Vec<u8>> = vec![];
    for _ in 0..n {
        let (c, _) = gen_contig(&mut rng, k, &contigs);
        contigs.push(c);
    }
    // later samples of the PanSN file: copies, mutations and fresh contigs (would change every
    // set if they were taken into account)
    let mut later = vec![];
    let n_later = rng.range(1, 4);
    for j in 0..n_later {
        let sample = match rng.below(3) {
            0 => "ref#2".to_string(),
            1 => format!("alt{}#1", j),
            _ => "re#1".to_string(),
        };
        let body = if !contigs.is_empty() && rng.chance(1, 2) { rng.pick(&contigs).clone() } else { let l = rng.range(0, 800) as usize; rand_seq(&mut rng, l) };
        later.push((format!("{}#ctg{}", sample, j), body));
    }
    if rng.chance(1, 3) {
        // the first sample's name shows up again after another sample: must be ignored (break)
        let l = rng.range(k as u64, 600) as usize;
        later.push(("ref#1#late".to_string(), rand_seq(&mut rng, l)));
    }
    Case { k, seg, contigs, later, files: true, origin: format!("random:{idx}") }
}

/// A reference with more than 65536 k-mers (4-6 boundaries of 65536-element blocks in the sorted
/// k-mer vector) in which most k-mers occur two or three times, on either strand: blocks of random
/// sequence, each placed several times.
fn gen_large_case(seed: u64, idx: u64) -> Case {
    let mut rng = Rng::new(seed, 1112, idx);
    let k = *rng.pick(&[11usize, 15, 21, 31, 32]);
    let seg = rng.range(500, 5000) as usize;
    let n_blocks = rng.range(30, 80) as usize;
    let blocks: Vec<Vec<u8>> = (0..n_blocks).map(|_| { let l = rng.range(300, 3000) as usize; rand_seq(&mut rng, l) }).collect();
    let total = rng.range(150_000, 400_000) as usize;
    let n_contigs = rng.range(1, 5) as usize;
    let mut contigs: Vec<Vec<u8>> = vec![vec![]; n_contigs];
    let mut have = 0usize;
    while have < total {
        let b = rng.pick(&blocks).clone();
        let b = if rng.chance(1, 3) { rc_contig(&b) } else { b };
        let ci = rng.below(n_contigs as u64) as usize;
        have += b.len();
        contigs[ci].extend_from_slice(&b);
        if rng.chance(1, 4) {
            // unique spacer (singleton k-mers between the repeated blocks)
            let l = rng.range(k as u64, 400) as usize;
            let u = rand_seq(&mut rng, l);
            have += u.len();
            contigs[ci].extend_from_slice(&u);
        }
    }
    let later = vec![("alt#1#c0".to_string(), rng.pick(&blocks).clone())];
    Case { k, seg, contigs, later, files: true, origin: format!("large:{idx}") }
}

struct Pools(Vec<(usize, rayon::ThreadPool)>);

fn write_file(path: &Path, bytes: &[u8]) {
    std::fs::write(path, bytes).expect("write fasta");
}

fn split_positions(contig: &Vec<u8>, splitters: &AHashSet<u64>, k: usize, seg: usize) -> (Vec<usize>, Vec<usize>) {
    let segs = split_at_splitters_with_size(contig, splitters, k, seg);
    let lens: Vec<usize> = segs.iter().map(|s| s.data.len()).collect();
    // segment i>0 starts k symbols before the end of segment i-1
    let mut ends = vec![];
    let mut end = 0usize;
    for (i, l) in lens.iter().enumerate() {
        end = if i == 0 { *l } else { end - k.min(end) + *l };
        ends.push(end);
    }
    // split positions = index of the last base of every segment but the final one
    let pos: Vec<usize> = if ends.len() > 1 { ends[..ends.len() - 1].iter().map(|e| e - 1).collect() } else { vec![] };
    (lens, pos)
}

fn eval_case(ctx: &mut Ctx, rep: &mut Report, pools: &Pools, c: &Case, case_no: u64) {
    let k = c.k;
    let seg = c.seg;
    let case = c.to_json();
    let mut rng = Rng::new(ctx.seed, 1100, case_no);
    // ---- run the three variants under every pool
    let mut results: Vec<(String, usize, Result<Sets, String>)> = vec![];
    let dir = Path::new(&ctx.workdir).to_path_buf();
    let plain = dir.join(format!("c11_{case_no}_ref.fa"));
    let pansn = dir.join(format!("c11_{case_no}_pansn.fa"));
    let mut pansn_recs: Vec<(String, Vec<u8>)> = vec![];
    let mut plain_recs: Vec<(String, Vec<u8>)> = vec![];
    if c.files {
        let pres = Presentation {
            width: *rng.pick(&[0usize, 1, 7, 60, 80]),
            crlf: rng.chance(1, 6),
            case: *rng.pick(&[0u8, 0, 1, 2]),
            gz: 0,
            final_newline: true,
        };
        let recs: Vec<(String, Vec<u8>)> = c.contigs.iter().enumerate().map(|(i, s)| (format!("ctg{} len={}", i, s.len()), s.clone())).collect();
        write_file(&plain, &render(&mut rng, &recs, &pres));
        // headers of the first sample: plain PanSN, extra '#' parts, descriptions containing '#'
        let mut recs2: Vec<(String, Vec<u8>)> = c
            .contigs
            .iter()
            .enumerate()
            .map(|(i, s)| {
                let h = match (case_no + i as u64) % 4 {
                    0 => format!("ref#1#ctg{}", i),
                    1 => format!("ref#1#ctg{}#part#x", i),
                    2 => format!("ref#1#ctg{} len={} note#2", i, s.len()),
                    _ => format!("ref#1#{}", i),
                };
                (h, s.clone())
            })
            .collect();
        recs2.extend(c.later.iter().cloned());
        write_file(&pansn, &render(&mut rng, &recs2, &pres));
        pansn_recs = recs2;
        plain_recs = recs;
    }
    for (n, pool) in &pools.0 {
        if !c.files && *n != 1 {
            continue;
        }
        let r = guarded(|| pool.install(|| determine_splitters(&c.contigs, k, seg)));
        results.push(("memory".into(), *n, r));
        if c.files {
            let r = guarded(|| pool.install(|| determine_splitters_streaming(&plain, k, seg))).and_then(|x| x.map_err(|e| format!("err {e}")));
            results.push(("streaming".into(), *n, r));
            let r = guarded(|| pool.install(|| determine_splitters_streaming_first_sample(&pansn, k, seg))).and_then(|x| x.map_err(|e| format!("err {e}")));
            results.push(("first-sample".into(), *n, r));
            if *n == 1 {
                // a file without PanSN headers is one sample ("unknown"): all records are used
                let r = guarded(|| pool.install(|| determine_splitters_streaming_first_sample(&plain, k, seg))).and_then(|x| x.map_err(|e| format!("err {e}")));
                results.push(("first-sample-plain".into(), *n, r));
            }
        }
    }
    if c.files {
        let _ = std::fs::remove_file(&plain);
        let _ = std::fs::remove_file(&pansn);
    }
    let strs: Vec<(String, usize, String)> = results
        .iter()
        .map(|(v, n, r)| (v.clone(), *n, match r { Ok(s) => canon(s), Err(p) => format!("panic {p}") }))
        .collect();
    let base = strs[0].2.clone();
    // ---- correspondence with the model
    let req = format!(
        "splitters {} {} {}",
        k,
        seg,
        if c.contigs.is_empty() { "[]".to_string() } else { c.contigs.iter().map(|x| hex(x)).collect::<Vec<_>>().join(",") }
    );
    // large references (> 65536 k-mers: parallel block paths) run against the direct oracles only —
    // the list-based model is quadratic in places
    let large = c.contigs.iter().map(|x| x.len()).sum::<usize>() > 66_000;
    if large {
        rep.count("branch_large_reference");
    }
    if let Some(m) = if large { None } else { ctx.ask(&req) } {
        for (v, n, s) in &strs {
            if *s != m {
                rep.disagree(&format!("splitters/{v}/threads={n}"), case.clone(), &m, s);
                break;
            }
        }
    }
    // the record-selection rule of the first-sample variant (leading run of the first sample name)
    if c.files && !large {
        for (variant, recs) in [("first-sample", &pansn_recs), ("first-sample-plain", &plain_recs)] {
            let req = format!(
                "splitters-first {} {} {}",
                k,
                seg,
                recs.iter().map(|(h, x)| format!("{}:{}", hex(h.as_bytes()), hex(x))).collect::<Vec<_>>().join(",")
            );
            if let Some(m) = ctx.ask(&req) {
                for (v, n, s) in &strs {
                    if v == variant && *s != m {
                        rep.disagree(&format!("splitters-first/{v}/threads={n}"), case.clone(), &m, s);
                        break;
                    }
                }
                rep.count("branch_first_sample_rule_compared");
            }
        }
    }
    // ---- oracle: variants agree, thread count does not matter
    for (v, n, s) in &strs {
        if *s != base {
            let same_variant_other_threads = strs.iter().any(|(v2, n2, s2)| v2 == v && n2 != n && s2 != s);
            if same_variant_other_threads {
                rep.oracle_fail("splitters-thread-dependent", &format!("{v} with {n} threads differs from its result with another thread count"), case.clone());
            } else {
                rep.oracle_fail("splitters-variants-differ", &format!("{v} (threads={n}) differs from memory (threads={})", strs[0].1), case.clone());
            }
            break;
        }
    }
    for (v, n, r) in &results {
        if let Err(p) = r {
            rep.oracle_fail("splitters-panic", &format!("{v} threads={n}: {p}"), case.clone());
            break;
        }
    }
    let Some((_, _, Ok(real))) = results.first().map(|x| (&x.0, x.1, x.2.as_ref())) else {
        rep.case(&(k, seg, &c.contigs), false);
        return;
    };
    let (splitters, singles, dups) = real;
    // ---- branch counters
    let n_with_n = c.contigs.iter().filter(|s| s.iter().any(|&b| b > 3)).count();
    let n_short = c.contigs.iter().filter(|s| s.len() < k).count();
    let n_empty = c.contigs.iter().filter(|s| s.is_empty()).count();
    let mut n_dup = 0;
    let mut n_rcdup = 0;
    for i in 0..c.contigs.len() {
        if c.contigs[i].len() < k {
            continue;
        }
        if (0..i).any(|j| c.contigs[j] == c.contigs[i]) {
            n_dup += 1;
        }
        let rc = rc_contig(&c.contigs[i]);
        if (0..i).any(|j| c.contigs[j] == rc) {
            n_rcdup += 1;
        }
    }
    rep.add("branch_contigs_total", c.contigs.len() as u64);
    rep.add("branch_contigs_with_N", n_with_n as u64);
    rep.add("branch_contigs_shorter_than_k", n_short as u64);
    rep.add("branch_contigs_empty", n_empty as u64);
    rep.add("branch_contigs_duplicated", n_dup as u64);
    rep.add("branch_contigs_rc_duplicated", n_rcdup as u64);
    rep.add("branch_splitters_total", splitters.len() as u64);
    if splitters.is_empty() {
        rep.count("branch_refs_with_0_splitters");
    }
    if singles.is_empty() {
        rep.count("branch_refs_with_0_singletons");
    }
    if !dups.is_empty() {
        rep.count("branch_refs_with_duplicates");
    }
    if k == 32 {
        rep.count("branch_k32");
    }
    if seg < k {
        rep.count("branch_segsize_below_k");
    }
    if c.later.iter().any(|(h, _)| h.starts_with("ref#1#")) {
        rep.count("branch_first_sample_name_reappears");
    }
    rep.case(&(k, seg, &c.contigs), !splitters.is_empty());
    // ---- oracle: the laws against a from-scratch count
    let counts = scratch_counts(&c.contigs, k);
    let sc_singles: AHashSet<u64> = counts.iter().filter(|(_, &n)| n == 1).map(|(&v, _)| v).collect();
    let sc_dups: AHashSet<u64> = counts.iter().filter(|(_, &n)| n >= 2).map(|(&v, _)| v).collect();
    if let Some(s) = splitters.iter().find(|s| !sc_singles.contains(s)) {
        rep.oracle_fail("splitters-not-singleton", &format!("splitter {s} occurs {} times in the reference", counts.get(s).copied().unwrap_or(0)), case.clone());
    }
    if let Some(s) = splitters.iter().find(|s| !singles.contains(s)) {
        rep.oracle_fail("splitters-not-singleton", &format!("splitter {s} is not in the returned singleton set"), case.clone());
    }
    if let Some(s) = singles.iter().find(|s| dups.contains(s)) {
        rep.oracle_fail("splitters-sets-overlap", &format!("{s} is both singleton and duplicate"), case.clone());
    }
    if *singles != sc_singles || *dups != sc_dups {
        rep.oracle_fail(
            "splitters-sets-wrong",
            &format!("singletons {} vs from-scratch {}, duplicates {} vs from-scratch {}", singles.len(), sc_singles.len(), dups.len(), sc_dups.len()),
            case.clone(),
        );
    }
    // ---- oracle: contig order and strand do not matter for the singleton / duplicate sets
    if c.contigs.len() > 0 {
        let pool = &pools.0[(case_no % pools.0.len() as u64) as usize].1;
        let mut perm = c.contigs.clone();
        for i in (1..perm.len()).rev() {
            let j = rng.below(i as u64 + 1) as usize;
            perm.swap(i, j);
        }
        match guarded(|| pool.install(|| determine_splitters(&perm, k, seg))) {
            Ok(r) => {
                if r.1 != *singles || r.2 != *dups {
                    rep.oracle_fail("splitters-order-dependent", "singleton/duplicate sets change when the contigs are permuted", case.clone());
                }
                if perm != c.contigs {
                    rep.count("branch_permuted");
                }
            }
            Err(p) => rep.oracle_fail("splitters-panic", &format!("permuted: {p}"), case.clone()),
        }
        let mut n_rc = 0;
        let flipped: Vec<Vec<u8>> = c.contigs.iter().map(|s| if rng.chance(1, 2) { n_rc += 1; rc_contig(s) } else { s.clone() }).collect();
        match guarded(|| pool.install(|| determine_splitters(&flipped, k, seg))) {
            Ok(r) => {
                if r.1 != *singles || r.2 != *dups {
                    rep.oracle_fail("splitters-strand-dependent", "singleton/duplicate sets change when some contigs are reverse-complemented", case.clone());
                }
                if flipped != c.contigs {
                    rep.count("branch_strand_flipped");
                }
            }
            Err(p) => rep.oracle_fail("splitters-panic", &format!("reverse-complemented: {p}"), case.clone()),
        }
    }
    // ---- oracle: spacing of the segments of the reference cut with its own splitters
    let mut interior = 0u64;
    let mut picks_asked = false;
    for (ci, contig) in c.contigs.iter().enumerate() {
        let r = guarded(|| split_positions(contig, splitters, k, seg));
        let (lens, pos) = match r {
            Ok(x) => x,
            Err(p) => {
                rep.oracle_fail("splitters-panic", &format!("segmenting contig {ci}: {p}"), case.clone());
                continue;
            }
        };
        if lens.len() > 3 {
            for (si, &l) in lens.iter().enumerate().take(lens.len() - 2).skip(1) {
                interior += 1;
                if l < seg {
                    rep.oracle_fail("splitters-spacing", &format!("contig {ci}: segment {si} of {} has {l} < {seg} bases", lens.len()), case.clone());
                    break;
                }
                if l < seg + k {
                    rep.count("branch_interior_segment_below_segsize_plus_k");
                }
            }
        }
        // positions of the model's picks (ghost data) = split positions of the real segmenter
        if !picks_asked && !pos.is_empty() && singles.len() <= 3000 && contig.len() <= 6000 {
            picks_asked = true;
            let req = format!("splitters-picks {} {} {} {}", k, seg, nat_list(&sorted(singles)), hex(contig));
            if let Some(m) = ctx.ask(&req) {
                // model: ok [pos:kmer:atEnd,...]
                let mpos: Vec<usize> = m
                    .trim_start_matches("ok [")
                    .trim_end_matches(']')
                    .split(',')
                    .filter(|s| !s.is_empty())
                    .filter_map(|s| s.split(':').next().and_then(|x| x.parse().ok()))
                    .collect();
                if mpos != pos {
                    rep.disagree("splitters-picks/positions", json!({"case": case, "contig": ci}), &m, &nat_list(&pos));
                }
                rep.count("branch_pick_positions_compared");
            }
        }
    }
    rep.add("branch_spacing_interior_segments", interior);
    // ---- the segmenter's main loop is the second pass with segment_size 0 (theorem
    // self_segmentation reads it that way): compare on an arbitrary splitter set (the real
    // splitters plus random k-mers of the contig, duplicates included)
    if let Some((ci, contig)) = c.contigs.iter().enumerate().filter(|(_, s)| s.len() >= k && s.len() <= 6000).nth((case_no % 3) as usize).or_else(|| c.contigs.iter().enumerate().find(|(_, s)| s.len() >= k)) {
        let all = ragc_core::kmer_extract::enumerate_kmers(contig, k);
        let mut set: AHashSet<u64> = splitters.iter().copied().filter(|_| rng.chance(2, 3)).collect();
        if !all.is_empty() {
            for _ in 0..rng.range(0, 6) {
                set.insert(all[rng.below(all.len() as u64) as usize]);
            }
        }
        if set.len() <= 3000 {
            if let Ok((_, pos)) = guarded(|| split_positions(contig, &set, k, seg)) {
                let req = format!("splitters-picks {} 0 {} {}", k, nat_list(&sorted(&set)), hex(contig));
                if let Some(m) = ctx.ask(&req) {
                    let mpos: Vec<usize> = m
                        .trim_start_matches("ok [")
                        .trim_end_matches(']')
                        .split(',')
                        .filter(|s| !s.is_empty() && s.ends_with(":0"))
                        .filter_map(|s| s.split(':').next().and_then(|x| x.parse().ok()))
                        .collect();
                    if mpos != pos {
                        rep.disagree("segmenter-loop/positions", json!({"case": case, "contig": ci, "set": nat_list(&sorted(&set))}), &m, &nat_list(&pos));
                    }
                    rep.count("branch_segmenter_loop_compared");
                    if !pos.is_empty() {
                        rep.count("branch_segmenter_loop_compared_with_splits");
                    }
                }
            }
        }
    }
    if rep.samples.len() < 4 && splitters.len() >= 2 && n_with_n > 0 {
        rep.sample(json!({"k": k, "seg": seg, "contig_lengths": c.contigs.iter().map(|s| s.len()).collect::<Vec<_>>(),
            "splitters": splitters.len(), "singletons": singles.len(), "duplicates": dups.len(), "runs": strs.len()}));
    }
}

/// `remove_non_singletons` / `_with_duplicates` on a sorted vector vs the model.
fn rm_case(ctx: &mut Ctx, rep: &mut Report, v: &[u64]) {
    let real = guarded(|| {
        let mut a = v.to_vec();
        remove_non_singletons(&mut a, 0);
        // the duplicate scan of determine_splitters (splitters.rs 64-83) re-done from scratch
        let mut d = vec![];
        let mut i = 0;
        while i < v.len() {
            let mut j = i + 1;
            while j < v.len() && v[j] == v[i] {
                j += 1;
            }
            if j - i > 1 {
                d.push(v[i]);
            }
            i = j;
        }
        let mut b = v.to_vec();
        let mut dd = vec![99];
        remove_non_singletons_with_duplicates(&mut b, &mut dd, 0);
        (a, d, b, dd)
    });
    let case = json!({"rm": nat_list(v)});
    match real {
        Ok((a, d, b, dd)) => {
            // law: exactly the values with count 1 / count >= 2
            let mut cnt: HashMap<u64, u32> = HashMap::new();
            for x in v {
                *cnt.entry(*x).or_insert(0) += 1;
            }
            let mut e1: Vec<u64> = cnt.iter().filter(|(_, &n)| n == 1).map(|(&x, _)| x).collect();
            let mut e2: Vec<u64> = cnt.iter().filter(|(_, &n)| n >= 2).map(|(&x, _)| x).collect();
            e1.sort_unstable();
            e2.sort_unstable();
            if a != e1 || b != e1 || dd != e2 {
                rep.oracle_fail("rm-nonsingletons-law", "result is not (count = 1, count >= 2)", case.clone());
            }
            let s = format!("ok {} | {} | {} | {}", nat_list(&a), nat_list(&d), nat_list(&b), nat_list(&dd));
            if let Some(m) = ctx.ask(&format!("rm-nonsingletons {}", nat_list(v))) {
                if m != s {
                    rep.disagree("rm-nonsingletons", case, &m, &s);
                }
            }
        }
        Err(p) => rep.oracle_fail("splitters-panic", &format!("remove_non_singletons: {p}"), case),
    }
    rep.count("branch_rm_nonsingletons_cases");
}

/// Silence the unconditional `eprintln!("DEBUG: …")` of splitters.rs while the cases run.
struct Quiet(i32);
impl Quiet {
    fn new() -> Quiet {
        unsafe {
            let saved = libc::dup(2);
            let null = libc::open(b"/dev/null\0".as_ptr() as *const libc::c_char, libc::O_WRONLY);
            if null >= 0 {
                libc::dup2(null, 2);
                libc::close(null);
            }
            Quiet(saved)
        }
    }
}
impl Drop for Quiet {
    fn drop(&mut self) {
        unsafe {
            if self.0 >= 0 {
                libc::dup2(self.0, 2);
                libc::close(self.0);
            }
        }
    }
}

pub fn run(ctx: &mut Ctx) -> Report {
    let mut rep = Report::new(
        "C11",
        "(1) all single contigs up to length 6 over {A,C,T,N} and all pairs of contigs up to length 4 over {A,C,T}, k=3, segment size 1 and 3 \
         (in-memory variant); (2) random references of 1-8 contigs (lengths 0..6000, N runs, IUPAC codes, exact and reverse-complemented repeats, \
         duplicated and reverse-complemented contigs, contigs shorter than k, low-complexity contigs), k 3..32, segment size 10..2000, the three \
         variants from files under rayon pools of 1/2/4/16 threads, PanSN file with later samples; (2b) large references (150-400 kb, > 65536 k-mers, \
         most k-mers repeated on either strand) against the direct oracles only; (3) sorted vectors for remove_non_singletons. \
         A case is non-trivial if at least one splitter is selected; distinct by (k, segment size, contigs)",
    );
    let pools = Pools(
        [1usize, 2, 4, 16]
            .iter()
            .map(|&n| (n, rayon::ThreadPoolBuilder::new().num_threads(n).build().expect("rayon pool")))
            .collect(),
    );
    let _quiet = Quiet::new();
    if let Some(r) = ctx.replay.clone() {
        if let Some(l) = r["case"]["rm"].as_str() {
            let v: Vec<u64> = l.trim_matches(|c| c == '[' || c == ']').split(',').filter_map(|x| x.parse().ok()).collect();
            rm_case(ctx, &mut rep, &v);
        } else {
            let inner = if r["case"]["case"].is_object() { r["case"]["case"].clone() } else { r["case"].clone() };
            let c = Case::from_json(&inner);
            eval_case(ctx, &mut rep, &pools, &c, 0);
        }
        return rep;
    }
    let mut case_no = 0u64;
    // 1a. all single contigs over {0,1,3,4}
    let max_len = ctx.t(6usize, 8usize);
    for len in 0..=max_len {
        for v in 0..4u64.pow(len as u32) {
            let mut x = v;
            let seq: Vec<u8> = (0..len).map(|_| { let d = [0u8, 1, 3, 4][(x % 4) as usize]; x /= 4; d }).collect();
            for seg in [1usize, 3] {
                let c = Case { k: 3, seg, contigs: vec![seq.clone()], later: vec![], files: false, origin: "all-single".into() };
                eval_case(ctx, &mut rep, &pools, &c, case_no);
                case_no += 1;
            }
        }
    }
    // 1b. all pairs of contigs over {0,1,3} up to length 4
    let mut small: Vec<Vec<u8>> = vec![];
    for len in 0..=4usize {
        for v in 0..3u64.pow(len as u32) {
            let mut x = v;
            small.push((0..len).map(|_| { let d = [0u8, 1, 3][(x % 3) as usize]; x /= 3; d }).collect());
        }
    }
    let stride = ctx.t(3usize, 1usize);
    for (i, a) in small.iter().enumerate() {
        for (j, b) in small.iter().enumerate() {
            if (i + j) % stride != 0 {
                continue;
            }
            let c = Case { k: 3, seg: 1, contigs: vec![a.clone(), b.clone()], later: vec![], files: false, origin: "all-pairs".into() };
            eval_case(ctx, &mut rep, &pools, &c, case_no);
            case_no += 1;
        }
    }
    // 2. random references, three variants from files, all pools
    let n_rand = ctx.t(160u64, 8000u64);
    for i in 0..n_rand {
        let c = gen_case(ctx.seed, i);
        eval_case(ctx, &mut rep, &pools, &c, 1_000_000 + i);
    }
    // 2b. large references: more than 65536 k-mers, most of them repeated (block-parallel paths)
    let n_large = ctx.t(3u64, 16u64);
    for i in 0..n_large {
        let c = gen_large_case(ctx.seed, i);
        eval_case(ctx, &mut rep, &pools, &c, 2_000_000 + i);
    }
    // 3. remove_non_singletons on sorted vectors
    let n_rm = ctx.t(2000u64, 20000u64);
    for i in 0..n_rm {
        let mut rng = Rng::new(ctx.seed, 1111, i);
        let n = rng.range(0, 24) as usize;
        let spread = *rng.pick(&[2u64, 4, 10, 1 << 40]);
        let mut v: Vec<u64> = (0..n).map(|_| if rng.chance(1, 20) { u64::MAX - rng.below(2) } else { rng.below(spread) }).collect();
        v.sort_unstable();
        rm_case(ctx, &mut rep, &v);
    }
    rep
}
