use crate::report::Report;
use crate::Ctx;

pub mod c01;
pub mod c02;
pub mod c04;
pub mod c05;
pub mod c12;
pub mod c10;
pub mod c06;
pub mod c13;
pub mod c14;
pub mod c07;
pub mod c08;
pub mod c03;
pub mod c09;
pub mod c11;
pub mod c18;
pub mod c16;
pub mod c19;
pub mod c15;
pub mod c17;
pub mod c20;

pub fn run(prop: &str, ctx: &mut Ctx) -> Option<Report> {
    match prop {
        "C01" => Some(c01::run(ctx)),
        "C02" => Some(c02::run(ctx)),
        "C04" => Some(c04::run(ctx)),
        "C05" => Some(c05::run(ctx)),
        "C12" => Some(c12::run(ctx)),
        "C10" => Some(c10::run(ctx)),
        "C06" => Some(c06::run(ctx)),
        "C13" => Some(c13::run(ctx)),
        "C14" => Some(c14::run(ctx)),
        "C07" => Some(c07::run(ctx)),
        "C08" => Some(c08::run(ctx)),
        "C03" => Some(c03::run(ctx)),
        "C09" => Some(c09::run(ctx)),
        "C11" => Some(c11::run(ctx)),
        "C18" => Some(c18::run(ctx)),
        "C16" => Some(c16::run(ctx)),
        "C19" => Some(c19::run(ctx)),
        "C15" => Some(c15::run(ctx)),
        "C17" => Some(c17::run(ctx)),
        "C20" => Some(c20::run(ctx)),
        _ => None,
    }
}

/// file:line of the most recent panic in this process (set by the panic hook in main.rs).
pub static LAST_PANIC_LOC: std::sync::Mutex<String> = std::sync::Mutex::new(String::new());

/// Run `f` catching panics of the code under test; `Err(msg)` carries the panic message.
pub fn guarded<T>(f: impl FnOnce() -> T) -> Result<T, String> {
    match std::panic::catch_unwind(std::panic::AssertUnwindSafe(f)) {
        Ok(v) => Ok(v),
        Err(e) => {
            let msg = if let Some(s) = e.downcast_ref::<&str>() {
                s.to_string()
            } else if let Some(s) = e.downcast_ref::<String>() {
                s.clone()
            } else {
                "panic".to_string()
            };
            Err(msg)
        }
    }
}

/// Like `guarded`, with the panic location appended (only meaningful when no other thread panics
/// at the same time).
pub fn guarded_loc<T>(f: impl FnOnce() -> T) -> Result<T, String> {
    guarded(f).map_err(|m| {
        let loc = LAST_PANIC_LOC.lock().map(|g| g.clone()).unwrap_or_default();
        format!("{m} @ {loc}")
    })
}

/// Run `n` independent cases on `threads` worker threads; each worker has its own model driver
/// and its own report, merged at the end (deterministic per case: everything derives from the index).
pub fn par_cases(
    ctx: &Ctx,
    rep: &mut Report,
    n: u64,
    threads: usize,
    f: impl Fn(&mut Option<crate::model::Model>, &mut Report, u64) + Sync,
) {
    let next = std::sync::atomic::AtomicU64::new(0);
    let parts: Vec<Report> = std::thread::scope(|sc| {
        let hs: Vec<_> = (0..threads.max(1))
            .map(|_| {
                sc.spawn(|| {
                    let mut m = ctx.spawn_model();
                    let mut r = Report::new(&rep.property, "");
                    loop {
                        let i = next.fetch_add(1, std::sync::atomic::Ordering::SeqCst);
                        if i >= n {
                            break;
                        }
                        f(&mut m, &mut r, i);
                    }
                    if let Some(m) = &m {
                        r.model_requests = m.requests;
                    }
                    r
                })
            })
            .collect();
        hs.into_iter().map(|h| h.join().expect("worker thread")).collect()
    });
    for p in parts {
        rep.merge(p);
    }
}
