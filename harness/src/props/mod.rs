use crate::report::Report;
use crate::Ctx;

pub mod c09;
pub mod c20;

pub fn run(prop: &str, ctx: &mut Ctx) -> Option<Report> {
    match prop {
        "C09" => Some(c09::run(ctx)),
        "C20" => Some(c20::run(ctx)),
        _ => None,
    }
}

/// Run `f` catching panics of the code under test; `Err(msg)` carries the panic message.
pub fn guarded<T>(f: impl FnOnce() -> T) -> Result<T, String> {
    match std::panic::catch_unwind(std::panic::AssertUnwindSafe(f)) {
        Ok(v) => Ok(v),
        Err(e) => {
            let msg = if let Some(s) = e.downcast_ref::<&str>() {
                s.to_string()
            } else if let Some(s) = e.downcast_ref::<String>() {
                s.clone()
            } else {
                "panic".to_string()
            };
            Err(msg)
        }
    }
}
