//! C14 a partially written archive is rejected cleanly (container level): every strict prefix of a
//! real archive file, opened with `Archive::new_reader().open`, must give `Err` — not a panic, not
//! `Ok`. Archives come from the C13 history generator; the outcome class of every prefix is also
//! compared with Model/Container.lean (`arch-prefix`).
use crate::model::{hex, nat_list, unhex};
use crate::props::c13::{gen_data, gen_history, gen_u64, ops_to_string, parse_ops, probe_seekmax, write_archive, Expect, GenCfg, Op};
use crate::props::guarded;
use crate::report::Report;
use crate::rng::Rng;
use crate::Ctx;
use ragc_common::archive::Archive;
use serde_json::{json, Value};

/// Built with overflow checks (profile "checked" = dev/test arithmetic)? Then the model's checked
/// reading is the reference and failures are reported under "-dev" signatures.
const DEV: bool = cfg!(debug_assertions);
/// Set to `true` once archive.rs / varint.rs carry the range checks of `openBytesFixed`
/// (Model/Container.lean): both profiles are then compared with the model's `fix` reading.
/// `VERIF_READER_VARIANT=fix|rel|chk` overrides this for experiments.
const REPAIRED: bool = true;
fn variant() -> String {
    if let Ok(v) = std::env::var("VERIF_READER_VARIANT") {
        if v == "fix" || v == "rel" || v == "chk" {
            return v;
        }
    }
    if REPAIRED { "fix" } else if DEV { "chk" } else { "rel" }.to_string()
}
fn sig(base: &str) -> String {
    if DEV { format!("{base}-dev") } else { base.to_string() }
}

const ISIZE_MAX: u64 = i64::MAX as u64;
const ALLOC_OK: u64 = 1 << 30;

/// Open `path` with the real reader: "o" | "e" | "p" (+ panic / error text).
fn open_class(path: &str) -> (&'static str, String) {
    match guarded(|| {
        let mut a = Archive::new_reader();
        let r = a.open(path).map_err(|e| format!("{e:#}"));
        drop(a);
        r
    }) {
        Ok(Ok(())) => ("o", String::new()),
        Ok(Err(e)) => ("e", e),
        Err(p) => ("p", p),
    }
}

/// Would `deserialize` (release arithmetic) reach `vec![0u8; footer_size]` with a size that is
/// neither small nor rejected by `Vec` itself? Such an open must not be executed in-process (the
/// allocator may abort or really hand out the memory). Computed from the bytes alone.
fn dangerous_alloc(bytes: &[u8], seekmax: u64) -> Option<u64> {
    let n = bytes.len() as u64;
    if n < 8 || DEV {
        // with overflow checks the subtraction panics before anything is allocated
        return None;
    }
    let fs = u64::from_le_bytes(bytes[bytes.len() - 8..].try_into().unwrap());
    let pos = (n - 8).wrapping_sub(fs);
    if pos <= seekmax && fs > ALLOC_OK && fs <= ISIZE_MAX {
        Some(fs)
    } else {
        None
    }
}

/// model token -> (expected real class, execute?)
fn expected_class(tok: &str) -> (&'static str, bool) {
    if tok == "o" {
        ("o", true)
    } else if tok == "e" {
        ("e", true)
    } else if tok.starts_with("p:") {
        ("p", true)
    } else if let Some(n) = tok.strip_prefix("a:") {
        match n.parse::<u128>() {
            Ok(v) if v > ISIZE_MAX as u128 => ("p", true), // Vec: "capacity overflow", nothing allocated
            Ok(v) if v > ALLOC_OK as u128 => ("e", false),
            Ok(_) => ("e", true),
            Err(_) => ("?", true),
        }
    } else {
        ("?", true)
    }
}

struct ArchiveCase {
    ops_str: String,
    file: Vec<u8>,
    footer_len: u64,
    /// a real archive written by ragc's compressor (then `Decompressor::open` is exercised too and
    /// "a strict prefix opens" is a violation); synthetic container files may embed bytes that
    /// look like a footer, so for them an opening prefix is only counted
    real: Option<Value>,
}

fn build(ctx: &Ctx, rep: &mut Report, ops: &[Op], tag: &str) -> Option<ArchiveCase> {
    let ops_str = ops_to_string(ops);
    let path = format!("{}/c14_{}_{}.full.agc", ctx.workdir, std::process::id(), tag);
    let r = write_archive(&path, ops);
    let _ = std::fs::remove_file(&path);
    match r {
        Ok(Ok((_, file))) => {
            let footer_len = if file.len() >= 8 { u64::from_le_bytes(file[file.len() - 8..].try_into().unwrap()) } else { 0 };
            Some(ArchiveCase { ops_str, file, footer_len, real: None })
        }
        Ok(Err(e)) => {
            rep.oracle_fail(&sig("open-prefix-writer"), &format!("writer failed: {e}"), json!({"ops": ops_str, "n": 0}));
            None
        }
        Err(p) => {
            rep.oracle_fail(&sig("open-prefix-writer"), &format!("writer panicked: {p}"), json!({"ops": ops_str, "n": 0}));
            None
        }
    }
}

/// Test the prefixes `ns` (any order) of one archive.
fn test_prefixes(ctx: &mut Ctx, rep: &mut Report, seekmax: u64, ac: &ArchiveCase, ns: &[usize], tag: &str) {
    let l = ac.file.len();
    let mut ns: Vec<usize> = ns.iter().copied().filter(|&n| n <= l).collect();
    ns.sort_unstable();
    ns.dedup();
    // model, in chunks
    let mut mtoks: Vec<Option<String>> = vec![None; ns.len()];
    if ctx.model.is_some() {
        let fhex = hex(&ac.file);
        for (ci, chunk) in ns.chunks(2000).enumerate() {
            let reply = ctx.ask(&format!("arch-prefix {} {} {} {}", variant(), seekmax, fhex, nat_list(chunk))).unwrap_or_default();
            let toks: Vec<&str> = reply.strip_prefix("ok ").map(|t| t.split(',').collect()).unwrap_or_default();
            if toks.len() != chunk.len() {
                rep.disagree("open-prefix-protocol", json!({"ops": ac.ops_str, "n": chunk[0]}), &reply, &format!("{} tokens expected", chunk.len()));
                continue;
            }
            for (k, t) in toks.iter().enumerate() {
                mtoks[ci * 2000 + k] = Some(t.to_string());
            }
        }
    }
    // real: one file, truncated progressively from the end
    let path = format!("{}/c14_{}_{}.prefix.agc", ctx.workdir, std::process::id(), tag);
    if std::fs::write(&path, &ac.file).is_err() {
        rep.notes.push(format!("cannot write {path}"));
        return;
    }
    let footer_start = (l as u64).saturating_sub(ac.footer_len + 8);
    for idx in (0..ns.len()).rev() {
        let n = ns[idx];
        let case = match &ac.real {
            Some(d) => json!({"real": d, "n": n}),
            None => json!({"ops": ac.ops_str, "n": n}),
        };
        let prefix = &ac.file[..n];
        rep.case(&(&ac.ops_str, n), n >= 8);
        let ok_len = std::fs::OpenOptions::new().write(true).open(&path).and_then(|f| f.set_len(n as u64)).is_ok();
        if !ok_len || std::fs::metadata(&path).map(|m| m.len()).unwrap_or(u64::MAX) != n as u64 {
            rep.notes.push(format!("cannot truncate {path} to {n}"));
            break;
        }
        if n < 8 {
            rep.count("branch_lt8");
        }
        if n as u64 >= footer_start {
            rep.count("branch_in_footer");
        }
        let ff8 = n >= 8 && prefix[n - 8..].iter().all(|&b| b == 0xff);
        if ff8 {
            rep.count("branch_ends_in_ff8");
        }
        let mtok = mtoks[idx].clone();
        let (want, mut exec) = match &mtok {
            Some(t) => expected_class(t),
            None => ("", true),
        };
        if let Some(t) = &mtok {
            if t == "e" {
                rep.count("branch_model_err");
            } else if t == "o" {
                rep.count("branch_model_ok");
            } else if t.starts_with("p:") {
                rep.count("branch_model_panic");
            } else if t.starts_with("a:") {
                if want == "p" {
                    rep.count("branch_model_alloc_huge");
                } else {
                    rep.count("branch_model_alloc_other");
                }
            }
        }
        if let Some(sz) = dangerous_alloc(prefix, seekmax) {
            exec = false;
            rep.oracle_fail(
                &sig("open-prefix-alloc"),
                &format!("opening the {n}-byte prefix would allocate a footer buffer of {sz} bytes (not executed)"),
                case.clone(),
            );
        } else if !exec {
            // the model predicts a large allocation the byte-level guard does not see
            rep.oracle_fail(
                &sig("open-prefix-alloc"),
                &format!("model predicts allocation {} for the {n}-byte prefix (not executed)", mtok.clone().unwrap_or_default()),
                case.clone(),
            );
        }
        if !exec {
            rep.count("not_executed");
            continue;
        }
        Ctx::breadcrumb(&case);
        let (real, msg) = open_class(&path);
        if let Some(t) = &mtok {
            if want != real {
                rep.disagree("open-prefix", case.clone(), t, &format!("{real} {msg}"));
            }
        }
        match real {
            "p" => {
                rep.count("branch_real_panic");
                if !ff8 {
                    // the footer size only has to wrap the footer offset into lseek's range
                    rep.count("branch_real_panic_not_ff8");
                    if !rep.samples.iter().any(|s| s["kind"] == "panic-not-ff8") && ac.ops_str.len() < 1500 {
                        rep.sample(json!({"kind": "panic-not-ff8", "ops": ac.ops_str, "n": n, "last8": hex(&prefix[n - 8..]), "model": mtok, "impl": format!("{real} {msg}")}));
                    }
                }
                rep.oracle_fail(&sig("open-prefix-panic"), &format!("open of the {n}-byte prefix (of {l}) panicked: {msg}"), case.clone());
            }
            "o" => {
                rep.count("branch_real_ok");
                if !rep.samples.iter().any(|s| s["kind"] == "prefix-ok") && ac.ops_str.len() < 2500 {
                    rep.sample(json!({"kind": "prefix-ok", "ops": ac.ops_str, "n": n, "last8": hex(&prefix[n.saturating_sub(8)..]), "model": mtok}));
                }
                if ac.real.is_some() {
                    rep.oracle_fail(&sig("open-prefix-ok"), &format!("the {n}-byte strict prefix (of {l}) of a ragc archive opened successfully (container level)"), case.clone());
                } else {
                    // a synthetic container whose part data mimics a footer: not an archive ragc writes
                    rep.count("synthetic_prefix_is_itself_a_container");
                }
            }
            _ => rep.count("branch_real_err"),
        }
        if ac.real.is_some() {
            // the property's last clause, at the level users see: no handle from which samples can be read
            match guarded(|| ragc_core::Decompressor::open(&path, ragc_core::DecompressorConfig { verbosity: 0 }).map(|d| d.list_samples().len()).map_err(|e| format!("{e:#}"))) {
                Ok(Ok(ns)) => rep.oracle_fail(&sig("decompressor-prefix-ok"), &format!("Decompressor::open accepted the {n}-byte strict prefix (of {l}); it lists {ns} samples"), case.clone()),
                Ok(Err(_)) => rep.count("decompressor_prefix_err"),
                Err(pm) => rep.oracle_fail(&sig("decompressor-prefix-panic"), &format!("Decompressor::open panicked on the {n}-byte prefix (of {l}): {pm}"), case.clone()),
            }
        }
        if rep.samples.len() < 2 && n + 3 == l && l < 300 {
            rep.sample(json!({"ops": ac.ops_str, "file": hex(&ac.file), "n": n, "model": mtok, "impl": format!("{real} {msg}")}));
        }
    }
    let _ = std::fs::remove_file(&path);
}

fn prefix_set(l: usize) -> Vec<usize> {
    if l <= 8192 {
        (0..l).collect()
    } else {
        let mut v: Vec<usize> = (0..l).step_by(97).collect();
        v.extend(l - 600..l);
        v
    }
}

/// the hand-made 8-byte-ish files
fn garbage_case(ctx: &mut Ctx, rep: &mut Report, seekmax: u64, bytes: &[u8]) {
    let case = json!({"hex": hex(bytes)});
    rep.case(&("garbage", bytes), bytes.len() >= 8);
    rep.count("garbage_files");
    let path = format!("{}/c14_{}_garbage.agc", ctx.workdir, std::process::id());
    if std::fs::write(&path, bytes).is_err() {
        rep.notes.push(format!("cannot write {path}"));
        return;
    }
    let m = ctx.ask(&format!("arch-open {} {} {}", variant(), seekmax, hex(bytes)));
    let mtok: Option<String> = m.as_ref().map(|m| {
        let f: Vec<&str> = m.split(' ').collect();
        match f[0] {
            "ok" => "o".to_string(),
            "err" => "e".to_string(),
            "panic" => format!("p:{}", f.get(1).unwrap_or(&"")),
            "alloc" => format!("a:{}", f.get(1).unwrap_or(&"")),
            _ => m.clone(),
        }
    });
    let (want, mut exec) = mtok.as_deref().map(expected_class).unwrap_or(("", true));
    if let Some(sz) = dangerous_alloc(bytes, seekmax) {
        exec = false;
        rep.oracle_fail(&sig("open-prefix-alloc"), &format!("open would allocate {sz} bytes (not executed)"), case.clone());
    }
    if exec {
        let (real, msg) = open_class(&path);
        if let Some(t) = &mtok {
            if want != real {
                rep.disagree("open-garbage", case.clone(), t, &format!("{real} {msg}"));
            }
        }
        match real {
            "p" => rep.oracle_fail(&sig("open-garbage-panic"), &format!("open of {} panicked: {msg}", hex(bytes)), case.clone()),
            "o" => rep.oracle_fail(&sig("open-garbage-ok"), &format!("open of {} succeeded", hex(bytes)), case.clone()),
            _ => {}
        }
    }
    let _ = std::fs::remove_file(&path);
}

/// Archive number `idx` of the run.
fn gen_archive_ops(seed: u64, idx: u64) -> Vec<Op> {
    let mut rng = Rng::new(seed, 14, idx);
    let large = idx % 8 == 5;
    let cfg = if large {
        GenCfg { max_ops: 60, big_permille: 120, big_max_count: 3, big_max_len: 32768 }
    } else {
        GenCfg { max_ops: 45, big_permille: 8, big_max_count: 1, big_max_len: 4096 }
    };
    let mut ops = gen_history(&mut rng, &cfg);
    if large {
        // make sure the file really exceeds 8 kB (sampled prefix set)
        let ns = Expect::of(&ops).names.len();
        if ns == 0 {
            ops.push(Op::Reg(b"big".to_vec()));
        }
        let sid = rng.below(ns.max(1) as u64) as usize;
        let len = rng.range(9000, 60000) as usize;
        ops.push(Op::Buf(sid, gen_data(&mut rng, len), gen_u64(&mut rng)));
        ops.push(Op::Flush);
    }
    if idx % 3 == 0 {
        // metadata u64::MAX (08 ff*8), runs of >= 8 0xFF inside data, long zero runs
        let ns = Expect::of(&ops).names.len();
        let sid = if ns == 0 {
            ops.push(Op::Reg(b"edge".to_vec()));
            0
        } else {
            rng.below(ns as u64) as usize
        };
        let mut d = vec![0x41u8; rng.range(0, 5) as usize];
        d.extend(std::iter::repeat(0xff).take(rng.range(8, 20) as usize));
        d.extend(std::iter::repeat(0x00).take(rng.range(8, 40) as usize));
        d.push(0x42);
        ops.push(Op::Add(sid, d, u64::MAX));
        ops.push(Op::Buf(sid, vec![0u8; rng.range(20, 300) as usize], 1));
        ops.push(Op::Buf(sid, vec![0xff; rng.range(9, 30) as usize], u64::MAX));
        ops.push(Op::SetRaw(sid, u64::MAX));
        ops.push(Op::Flush);
    }
    ops
}

/// The release harness also runs the same cases in the overflow-checked profile: the binary named by
/// VERIF_HARNESS_CHECKED (built by `check` when props_config says `checked_profile`) is started with
/// the same arguments, compares the real dev-profile behaviour with the model's checked reading,
/// and its report is merged here (counters `dev_*`, signatures `*-dev`).
fn run_dev_child(ctx: &Ctx, rep: &mut Report) {
    if DEV {
        return;
    }
    let Ok(bin) = std::env::var("VERIF_HARNESS_CHECKED") else { return };
    if !std::path::Path::new(&bin).exists() {
        rep.notes.push(format!("checked-profile harness {bin} not found; dev-profile leg skipped"));
        return;
    }
    let out = format!("{}/c14_dev_report.json", ctx.workdir);
    let work = format!("{}/dev", ctx.workdir);
    let _ = std::fs::create_dir_all(&work);
    let mut args: Vec<String> = std::env::args().skip(1).collect();
    let mut i = 0;
    let (mut saw_out, mut saw_work) = (false, false);
    while i + 1 < args.len() {
        if args[i] == "--out" {
            args[i + 1] = out.clone();
            saw_out = true;
        } else if args[i] == "--workdir" {
            args[i + 1] = work.clone();
            saw_work = true;
        }
        i += 1;
    }
    if !saw_out {
        args.extend(["--out".to_string(), out.clone()]);
    }
    if !saw_work {
        args.extend(["--workdir".to_string(), work.clone()]);
    }
    let status = std::process::Command::new(&bin).args(&args).stderr(std::process::Stdio::null()).status();
    let txt = std::fs::read_to_string(&out).unwrap_or_default();
    let _ = std::fs::remove_file(&out);
    let _ = std::fs::remove_dir_all(&work);
    let Ok(v) = serde_json::from_str::<Value>(&txt) else {
        rep.disagree("dev-profile-leg", json!({"bin": bin}), "report", &format!("child produced no report (status {status:?})"));
        return;
    };
    rep.evaluations += v["evaluations"].as_u64().unwrap_or(0);
    rep.add("dev_evaluations", v["evaluations"].as_u64().unwrap_or(0));
    rep.add("dev_model_requests", v["model_requests"].as_u64().unwrap_or(0));
    if let Some(c) = v["counters"].as_object() {
        for (k, n) in c {
            if k == "disagreements_total" || k == "oracle_failures_total" {
                rep.add(k, n.as_u64().unwrap_or(0));
            }
            rep.add(&format!("dev_{k}"), n.as_u64().unwrap_or(0));
        }
    }
    if let Some(d) = v["disagreements"].as_array() {
        for x in d {
            let mut x = x.clone();
            x["what"] = json!(format!("dev-profile: {}", x["what"].as_str().unwrap_or("")));
            rep.disagreements.push(x);
        }
    }
    if let Some(f) = v["oracle_failures"].as_array() {
        for x in f {
            rep.oracle_failures.push(x.clone());
        }
    }
    if let Some(sm) = v["samples"].as_array() {
        for x in sm.iter().take(2) {
            let mut x = x.clone();
            x["profile"] = json!("dev");
            rep.samples.push(x);
        }
    }
    rep.notes.push("dev-profile leg: same cases run by the overflow-checked harness against the model's checked reading".to_string());
}

pub fn run(ctx: &mut Ctx) -> Report {
    let mut rep = run_inner(ctx);
    run_dev_child(ctx, &mut rep);
    rep
}

fn run_inner(ctx: &mut Ctx) -> Report {
    let mut rep = Report::new(
        "C14",
        "archives written by the real Archive from C13 histories (most <= 8 kB: every strict prefix; larger: n = 0, every 97th \
         offset and the last 600 bytes), each prefix opened with the real reader; plus five hand-made garbage files; a case \
         (archive, n) is non-trivial if n >= 8; distinct by (op list, n)",
    );
    let _ = std::fs::create_dir_all(&ctx.workdir);
    let seekmax = probe_seekmax(&ctx.workdir);
    rep.notes.push(format!("seekmax (largest offset lseek accepts in {}) = {}", ctx.workdir, seekmax));
    if let Some(r) = ctx.replay.clone() {
        let c: &Value = &r["case"];
        if c.get("real").is_some() {
            let idx = c["real"]["index"].as_u64().unwrap_or(14_000) - 14_000;
            let n = c["n"].as_u64().unwrap_or(0) as usize;
            if let Some(ac) = build_real(ctx, &mut rep, c["real"]["seed"].as_u64().unwrap_or(1), idx) {
                test_prefixes(ctx, &mut rep, seekmax, &ac, &[n], "replay");
            }
        } else if let Some(h) = c["hex"].as_str() {
            garbage_case(ctx, &mut rep, seekmax, &unhex(h).unwrap_or_default());
        } else {
            let ops = parse_ops(c["ops"].as_str().unwrap_or("-")).unwrap_or_default();
            let n = c["n"].as_u64().unwrap_or(0) as usize;
            if let Some(ac) = build(ctx, &mut rep, &ops, "replay") {
                if n > ac.file.len() {
                    rep.notes.push(format!("replay: n = {n} exceeds the file length {}", ac.file.len()));
                }
                test_prefixes(ctx, &mut rep, seekmax, &ac, &[n], "replay");
            }
        }
        return rep;
    }
    // hand-made files
    for g in [vec![0xffu8; 8], vec![1, 0, 0, 0, 0, 0, 0, 0], vec![0u8; 9], vec![], vec![0x12, 0x34, 0x56, 0x78, 0x9a, 0xbc, 0xde]] {
        garbage_case(ctx, &mut rep, seekmax, &g);
    }
    let n_arch = ctx.t(25, 150);
    for idx in 0..n_arch {
        let ops = gen_archive_ops(ctx.seed, idx);
        let Some(ac) = build(ctx, &mut rep, &ops, &idx.to_string()) else { continue };
        rep.count("archives");
        if ac.file.len() > 8192 {
            rep.count("archives_gt_8k");
        }
        rep.add("archive_bytes", ac.file.len() as u64);
        let e = Expect::of(&ops);
        if e.n_meta_max > 0 {
            rep.count("archives_with_meta_u64max");
        }
        let has_ff8 = ac.file.windows(8).any(|w| w.iter().all(|&b| b == 0xff));
        if has_ff8 {
            rep.count("archives_with_ff8");
        }
        if ac.file.windows(16).any(|w| w.iter().all(|&b| b == 0)) {
            rep.count("archives_with_zero_run16");
        }
        let ns = prefix_set(ac.file.len());
        test_prefixes(ctx, &mut rep, seekmax, &ac, &ns, &idx.to_string());
    }
    // real archives written by the compressor: every strict prefix through Archive::open (vs model)
    // and Decompressor::open
    let n_real = ctx.t(4, 20);
    for idx in 0..n_real {
        if let Some(ac) = build_real(ctx, &mut rep, ctx.seed, idx) {
            rep.count("real_archives");
            rep.add("real_archive_bytes", ac.file.len() as u64);
            let ns = prefix_set(ac.file.len());
            test_prefixes(ctx, &mut rep, seekmax, &ac, &ns, &format!("real{idx}"));
        }
    }
    rep
}

/// A real archive of the C01 space (small), created through the library API as main.rs does.
fn build_real(ctx: &Ctx, rep: &mut Report, seed: u64, idx: u64) -> Option<ArchiveCase> {
    use crate::gen::genomes::Presentation;
    let mut case = crate::props::c01::gen_case(seed, 14_000 + idx, false);
    // keep it small: at most 4 samples
    case.set.samples.truncate(4);
    let dir = std::path::PathBuf::from(&ctx.workdir).join(format!("c14_real_{}_{idx}", std::process::id()));
    let _ = std::fs::remove_dir_all(&dir);
    let mut prng = Rng::new(seed, 114, idx);
    let inputs = crate::props::c01::write_inputs(&dir, &case, &mut prng, &Presentation::plain());
    let out = dir.join("out.agc");
    let r = guarded(|| crate::gen::archive::create_archive(&inputs, &out, &case.params));
    let file = std::fs::read(&out).unwrap_or_default();
    let _ = std::fs::remove_dir_all(&dir);
    match r {
        Ok(Ok(())) if file.len() >= 8 => {
            let footer_len = u64::from_le_bytes(file[file.len() - 8..].try_into().unwrap());
            let desc = json!({"seed": seed, "index": 14_000 + idx, "truncate_samples": 4});
            Some(ArchiveCase { ops_str: desc.to_string(), file, footer_len, real: Some(desc) })
        }
        other => {
            rep.notes.push(format!("real archive {idx} not created: {:?}", other.map(|_| ())));
            None
        }
    }
}
