//! C17 CLI extraction composes and exit codes tell the truth — the real binary against `Model/Cli.lean`.
//!
//! Per generated archive (created with the binary itself, multi-file and single-file PanSN mode):
//!  * the archive is opened through the library (`list_samples`, `get_sample`) to build the model's
//!    `Archive` (sample names in archive order, contig headers, bases as letters);
//!  * `getset` with one sample (every sample), with lists of names incl. repeats and reorderings,
//!    with prefixes (empty, full name, matching several, matching none, with ignored positional
//!    names), with unknown names first / in the middle / last, with no request; each to stdout and
//!    to `-o` (fresh path, pre-existing file, path in a missing directory); unreadable archives
//!    (missing, directory, empty, garbage, truncated at several points); unwritable temp directory;
//!    `listset` and `listctg` (stdout and `-o`). Exit status, stdout bytes, `-o` bytes and the content
//!    of the private temp directory after the run are compared with the model (`cli-*` requests);
//!  * several `getset` children at the same time in one temp directory (the temp file is named by pid).
//! `create`: the 16 combinations of `--batch/--adaptive/--concatenated/--cpp-agc` x verbosity,
//! `-t` in {absent, 0, 1, 3, 64, junk}, `--queue-capacity` strings (valid, blanks, suffix case,
//! tiny, huge, overflowing, junk, empty), missing/duplicate/absent inputs, missing `-o`, output in a
//! missing directory, unknown flag — exit status and the reason printed on stderr against
//! `createDispatch`/`createExit`; the parsed capacity (printed with `-v 1`) against `parseCapacity`.
//!
//! Direct oracles (signatures): "getset-concat" (multi-sample / prefix output == concatenation of
//! the single-sample outputs, request resp. archive order), "getset-stdout-file-differ",
//! "failure-exit-zero" (a failure case exits 0), "create-ok-but-missing" (create exits 0 but the
//! archive is missing / unreadable / does not list an input sample), "create-ok-but-empty"
//! (listed sample extracts with a different number of bases than the input), "create-hang" /
//! "cli-hang" (no exit within the timeout), "cli-abnormal-exit" (killed by a signal or status 101).
use crate::gen::cli::{self, Outcome, Run};
use crate::gen::genomes::{self, GenOpts, Presentation, Sample, SampleSet};
use crate::model::{hex, Model};
use crate::report::{clip, Report};
use crate::rng::Rng;
use crate::Ctx;
use serde_json::{json, Value};
use std::path::{Path, PathBuf};

const NAME_POOLS: &[&[&str]] = &[
    // dotted stems: the sample name is the file stem minus .fa/.fasta, NOT the part before the first dot
    &["HG002.1", "HG002.2", "asm.v1", "asm.v2", "x.y.z", "ref", "HG002"],
    &["a", "ab", "abc", "abd", "b", "ba", "c"],
    &["s1", "s10", "s11", "s2", "s20", "t1"],
    &["HG002", "HG0020", "HG003", "HG01", "NA12878", "NA1", "X"],
    &["x", "x-1", "x-10", "x_1", "y", "xy", "x-2"],
    &["sample", "sampleA", "sampleAB", "sampleB", "sam", "s", "z"],
];

struct ArchCase {
    idx: u64,
    desc: Value,
    dir: PathBuf,
    archive: PathBuf,
    /// model archive string
    marc: String,
    /// sample names in archive order
    names: Vec<String>,
    /// single-sample FASTA as the real binary extracts it (filled by `singles`)
    single: Vec<Vec<u8>>,
}

fn gen_set(seed: u64, idx: u64) -> (SampleSet, bool, Vec<String>, Value) {
    let mut rng = Rng::new(seed, 17, idx);
    let single_file = idx % 3 == 1;
    let k = *rng.pick(&[11usize, 15, 21, 31]);
    let n_samples = rng.range(2, 7) as usize;
    let o = GenOpts {
        n_samples,
        n_contigs: rng.range(1, 3) as usize,
        len_lo: *rng.pick(&[1usize, 40, 200]),
        len_hi: *rng.pick(&[90usize, 400, 1500]),
        div_per_mille: *rng.pick(&[0u64, 10, 80]),
        iupac: rng.chance(1, 2),
        n_runs: rng.chance(1, 2),
        revcomp: rng.chance(1, 2),
        structural: rng.chance(1, 2),
        short_contigs: rng.chance(1, 3),
        k,
        pansn: single_file,
        descriptions: rng.chance(1, 3),
    };
    let o = GenOpts { len_hi: o.len_hi.max(o.len_lo + 1), ..o };
    // archive 4: many similar samples, small segments — LZ groups with more than 50 distinct deltas
    // (>= 2 packs per delta stream), so that ONE getset invocation crosses pack boundaries
    let many = idx % 5 == 4;
    let o = if many {
        // > 50 DISTINCT NON-EMPTY deltas are needed in one group: an empty delta takes id 0 and equal
        // deltas inside a pending pack share an id, hence clearly more than 50 samples, every one
        // diverged in (nearly) every segment
        GenOpts { n_samples: rng.range(100, 110) as usize, n_contigs: 1, len_lo: 600, len_hi: 900, div_per_mille: 15, structural: false, short_contigs: false, descriptions: false,
            k: 11, ..o }
    } else {
        o
    };
    let mut set = genomes::gen_sample_set(&mut rng, &o);
    if !single_file && !many {
        // rename: prefix-related names; the file stem is the sample name
        let pool = NAME_POOLS[(idx as usize / 3) % NAME_POOLS.len()];
        set.samples.truncate(pool.len()); // one file per name
        let mut order: Vec<usize> = (0..pool.len()).collect();
        for i in (1..order.len()).rev() {
            order.swap(i, rng.below(i as u64 + 1) as usize);
        }
        for (i, s) in set.samples.iter_mut().enumerate() {
            let new = pool[order[i % pool.len()]].to_string();
            for c in s.contigs.iter_mut() {
                c.0 = c.0.replacen(&s.name, &new, 1);
            }
            s.name = new;
        }
    }
    let k = o.k;
    let s_size = if many { 150 } else { *rng.pick(&[60usize, 200, 1000, 60000]) };
    let threads = *rng.pick(&[1usize, 2, 4]);
    let args = vec![
        "-k".to_string(),
        k.to_string(),
        "-s".into(),
        s_size.to_string(),
        "-m".into(),
        "20".into(),
        "-t".into(),
        threads.to_string(),
    ];
    let desc = json!({"seed": seed, "index": idx, "single_file": single_file, "k": k, "segment_size": s_size, "threads": threads,
        "gen": format!("{:?}", o)});
    (set, single_file, args, desc)
}

/// Samples that must be listed: name -> number of bases (records without a base do not count).
fn expected_samples(set: &SampleSet, single_file: bool) -> Vec<(String, usize)> {
    let mut out: Vec<(String, usize)> = vec![];
    for s in &set.samples {
        for (h, seq) in &s.contigs {
            let n = genomes::normalise_letters(seq).len();
            if n == 0 {
                continue;
            }
            let parts: Vec<&str> = h.split('#').collect();
            let name = if single_file && parts.len() >= 3 { format!("{}#{}", parts[0], parts[1]) } else { s.name.clone() };
            if let Some(e) = out.iter_mut().find(|e| e.0 == name) {
                e.1 += n;
            } else {
                out.push((name, n));
            }
        }
    }
    out
}

fn write_inputs(dir: &Path, set: &SampleSet, single_file: bool, rng: &mut Rng) -> Vec<PathBuf> {
    std::fs::create_dir_all(dir).unwrap();
    let pres = Presentation::plain();
    if single_file {
        let all: Vec<(String, Vec<u8>)> = set.samples.iter().flat_map(|s| s.contigs.clone()).collect();
        let text = genomes::render_fasta(rng, &all, &pres);
        vec![genomes::write_presented(rng, dir, "all", &text, &pres)]
    } else {
        set.samples
            .iter()
            .map(|s: &Sample| {
                let text = genomes::render_fasta(rng, &s.contigs, &pres);
                genomes::write_presented(rng, dir, &s.name, &text, &pres)
            })
            .collect()
    }
}

fn opt_hex(b: &Option<Vec<u8>>) -> String {
    match b {
        Some(x) => hex(x),
        None => "~".into(),
    }
}

fn names_arg(ns: &[String]) -> String {
    if ns.is_empty() { "~".into() } else { ns.iter().map(|n| hex(n.as_bytes())).collect::<Vec<_>>().join(",") }
}

fn count_bases(fasta: &[u8]) -> usize {
    fasta.split(|&b| b == b'\n').filter(|l| !l.starts_with(b">")).map(|l| l.len()).sum()
}

/// Flag an exit that is neither a clean status 0/1/2 (panic status 101, signal, timeout).
fn check_abnormal(rep: &mut Report, o: &Outcome, what: &str, case: &Value) {
    if o.timed_out {
        rep.oracle_fail("cli-hang", &format!("{what}: no exit within the timeout"), case.clone());
    } else if o.code.is_none() || o.code == Some(101) {
        rep.oracle_fail("cli-abnormal-exit", &format!("{what}: ended with {} — {}", o.class(), clip(&o.stderr_text())), case.clone());
    }
}

struct Env<'a> {
    bin: &'a Path,
    seed: u64,
}

/// How the `-o` path looks before the run.
#[derive(Clone, Copy, PartialEq, Debug)]
enum OutKind {
    Stdout,
    Fresh,
    Existing,
    MissingDir,
}

/// One `getset` run against the model; returns (exit class, output bytes where the request put them).
#[allow(clippy::too_many_arguments)]
fn getset_case(
    env: &Env,
    model: &mut Option<Model>,
    rep: &mut Report,
    ac: &ArchCase,
    archive_path: &Path,
    marc: &str,
    names: &[String],
    prefix: Option<&str>,
    out: OutKind,
    temp_ok: bool,
    tag: &str,
    kind: &str,
) -> (String, Vec<u8>) {
    let run_dir = ac.dir.join(format!("r_{tag}"));
    let _ = std::fs::remove_dir_all(&run_dir);
    std::fs::create_dir_all(&run_dir).unwrap();
    let tmp = run_dir.join("tmp");
    if temp_ok {
        std::fs::create_dir_all(&tmp).unwrap();
    }
    let out_path = match out {
        OutKind::Stdout => None,
        OutKind::Fresh => Some(run_dir.join("out.fa")),
        OutKind::Existing => {
            let p = run_dir.join("out.fa");
            std::fs::write(&p, b"stale content\nthat must disappear\n").unwrap();
            Some(p)
        }
        OutKind::MissingDir => Some(run_dir.join("no_such_dir").join("out.fa")),
    };
    let out0 = out_path.as_ref().and_then(|p| cli::read_opt(p));
    let mut r = Run::new(env.bin, &["getset"]).path_arg(archive_path).tmp(&tmp).timeout_s(120);
    for n in names {
        r = r.arg(n);
    }
    if let Some(p) = prefix {
        r = r.arg(&format!("--prefix={p}"));
    }
    if let Some(p) = &out_path {
        r = r.arg("-o").path_arg(p);
    }
    let o = r.run();
    let out_after = out_path.as_ref().and_then(|p| cli::read_opt(p));
    let temp_left = cli::dir_entries(&tmp);
    let case = json!({"kind": kind, "archive": ac.desc, "archive_path": archive_path.file_name().map(|s| s.to_string_lossy().to_string()),
        "names": names, "prefix": prefix, "out": format!("{:?}", out), "temp_ok": temp_ok});
    rep.case(&case.to_string(), names.len() >= 2 || prefix.is_some());
    rep.count(&format!("getset_{kind}"));
    rep.count(&format!("getset_exit_{}", o.class()));
    rep.count(match out {
        OutKind::Stdout => "dest_stdout",
        _ => "dest_file",
    });
    check_abnormal(rep, &o, "getset", &case);
    if !temp_left.is_empty() {
        rep.count("temp_file_left_behind");
    }
    if let Some(m) = model.as_mut() {
        let dest = if out == OutKind::Stdout { "stdout" } else { "file" };
        let oc = if out == OutKind::MissingDir { 0 } else { 1 };
        let ans = m.ask(&format!(
            "cli-getset {} {} {} {} {} {} {}",
            marc,
            names_arg(names),
            prefix.map(|p| hex(p.as_bytes())).unwrap_or_else(|| "~".into()),
            dest,
            oc,
            if temp_ok { 1 } else { 0 },
            opt_hex(&out0)
        ));
        // model: "<code> <stdout> <out|~> <temp|~>"
        let imp = format!(
            "{} {} {} {}",
            o.class(),
            hex(&o.stdout),
            opt_hex(&out_after),
            if temp_left.is_empty() { "~".to_string() } else { format!("left:{}", temp_left.join("+")) }
        );
        if ans != imp {
            rep.disagree("getset", case.clone(), &ans, &imp);
        }
    }
    let _ = std::fs::remove_dir_all(&run_dir);
    let bytes = if out == OutKind::Stdout { o.stdout.clone() } else { out_after.unwrap_or_default() };
    (o.class(), bytes)
}

fn prepare(env: &Env, rep: &mut Report, workdir: &str, idx: u64) -> Option<ArchCase> {
    let (set, single_file, pargs, desc) = gen_set(env.seed, idx);
    let dir = PathBuf::from(workdir).join(format!("c17_{idx}"));
    let _ = std::fs::remove_dir_all(&dir);
    let mut prng = Rng::new(env.seed, 117, idx);
    let inputs = write_inputs(&dir, &set, single_file, &mut prng);
    let archive = dir.join("a.agc");
    let mut r = Run::new(env.bin, &["create", "-v", "0", "-o"]).path_arg(&archive).timeout_s(300);
    for a in &pargs {
        r = r.arg(a);
    }
    for i in &inputs {
        r = r.path_arg(i);
    }
    let o = r.run();
    let case = json!({"kind": "create", "archive": desc});
    rep.case(&case.to_string(), true);
    rep.count(if single_file { "create_single_file" } else { "create_multi_file" });
    rep.count(&format!("create_exit_{}", o.class()));
    if o.timed_out {
        rep.oracle_fail("create-hang", "create of a generated sample set did not exit within 300 s", case.clone());
        return None;
    }
    check_abnormal(rep, &o, "create", &case);
    if o.class() != "0" {
        rep.notes.push(format!("create of archive {idx} exits {}: {}", o.class(), clip(&o.stderr_text())));
        return None;
    }
    // create-ok oracle: exists, listset lists every input sample, base counts match
    let expect = expected_samples(&set, single_file);
    let l = Run::new(env.bin, &["listset"]).path_arg(&archive).run();
    let listed: Vec<String> = String::from_utf8_lossy(&l.stdout).lines().map(|s| s.to_string()).collect();
    if !archive.is_file() || l.class() != "0" || expect.iter().any(|e| !listed.contains(&e.0)) {
        rep.oracle_fail(
            "create-ok-but-missing",
            &format!("create exits 0; archive exists: {}; listset exits {} and lists {:?}; input samples {:?}", archive.is_file(), l.class(), listed,
                expect.iter().map(|e| &e.0).collect::<Vec<_>>()),
            case.clone(),
        );
        return None;
    }
    if listed == expect.iter().map(|e| e.0.clone()).collect::<Vec<_>>() {
        rep.count("listset_order_eq_input_order");
    } else {
        rep.count("listset_order_ne_input_order");
    }
    // the model's archive, through the library
    let mut d = match crate::gen::archive::open(&archive) {
        Ok(d) => d,
        Err(e) => {
            rep.oracle_fail("create-ok-but-missing", &format!("create exits 0 but the library cannot open the archive: {e}"), case.clone());
            return None;
        }
    };
    let names = d.list_samples();
    let mut parts = vec![];
    for n in &names {
        let contigs = match crate::props::guarded(|| d.get_sample(n)) {
            Ok(Ok(c)) => c,
            other => {
                rep.notes.push(format!("archive {idx}: get_sample({n}) failed in the library ({:?}); archive skipped (C16 territory)", other.map(|r| r.map(|v| v.len()).map_err(|e| format!("{e:#}")))));
                rep.count("archive_skipped_extraction_fails");
                return None;
            }
        };
        let cs: Vec<String> = contigs
            .iter()
            .map(|(h, codes)| format!("{}={}", hex(h.as_bytes()), hex(&crate::gen::archive::codes_to_letters(codes))))
            .collect();
        parts.push(format!("{}:{}", hex(n.as_bytes()), cs.join(";")));
        let bases: usize = contigs.iter().map(|c| c.1.len()).sum();
        if let Some(e) = expect.iter().find(|e| &e.0 == n) {
            if e.1 != bases {
                rep.oracle_fail("create-ok-but-empty", &format!("sample {n}: the input has {} bases, the archive yields {}", e.1, bases), case.clone());
            }
        }
    }
    let mut sorted = names.clone();
    sorted.sort();
    sorted.dedup();
    rep.count(if sorted.len() == names.len() { "archive_names_distinct" } else { "archive_names_repeat" });
    if names != listed {
        rep.disagree("listset-vs-library", case.clone(), &format!("{:?}", names), &format!("{:?}", listed));
    }
    let marc = if parts.is_empty() { "@".to_string() } else { parts.join("|") };
    rep.count("archives_prepared");
    // does ONE getset invocation have to cross a delta-pack boundary in this archive?
    {
        let mut a = ragc_common::Archive::new_reader();
        if a.open(&archive).is_ok() {
            let multi = (0..a.get_num_streams())
                .filter(|&sid| {
                    let n = a.get_stream_name(sid).unwrap_or("");
                    n.starts_with('x') && n.ends_with('d') && a.get_num_parts(sid) >= 2
                })
                .count();
            if multi > 0 {
                rep.count("archive_with_multi_pack_delta_stream");
            }
        }
    }
    Some(ArchCase { idx, desc, dir, archive, marc, names, single: vec![] })
}

fn distinct_prefixes(names: &[String]) -> Vec<String> {
    let mut v: Vec<String> = vec![];
    for n in names {
        for i in 0..=n.len() {
            if n.is_char_boundary(i) {
                v.push(n[..i].to_string());
            }
        }
    }
    v.sort();
    v.dedup();
    v
}

fn archive_cases(env: &Env, model: &mut Option<Model>, rep: &mut Report, ac: &mut ArchCase, n_lists: usize, n_prefixes: usize) {
    let mut rng = Rng::new(env.seed, 171, ac.idx);
    let arch = ac.archive.clone();
    let marc = ac.marc.clone();
    let names = ac.names.clone();
    if names.is_empty() {
        return;
    }
    // ---- single-sample extractions (and the model's rendering of the library's contigs)
    let mut single = vec![];
    for (i, n) in names.iter().enumerate() {
        let (c, bytes) = getset_case(env, model, rep, ac, &arch, &marc, &[n.clone()], None, if i % 2 == 0 { OutKind::Fresh } else { OutKind::Stdout }, true, &format!("s{i}"), "single");
        if c != "0" {
            rep.oracle_fail("getset-single-fails", &format!("getset of the listed sample {n} exits {c}"), json!({"archive": ac.desc, "sample": n}));
        }
        single.push(bytes);
    }
    ac.single = single.clone();
    if let Some(m) = model.as_mut() {
        let ans = m.ask(&format!("cli-render {}", marc));
        let imp = format!("ok {}", single.iter().map(|b| hex(b)).collect::<Vec<_>>().join(","));
        if ans != imp {
            rep.disagree("render", json!({"kind": "render", "archive": ac.desc}), &ans, &imp);
        }
    }
    let fasta_of = |n: &str| -> Vec<u8> { names.iter().position(|x| x == n).map(|i| single[i].clone()).unwrap_or_default() };

    // ---- name lists with repeats / reorderings
    let mut lists: Vec<Vec<String>> = vec![names.clone(), names.iter().rev().cloned().collect(), vec![names[0].clone(), names[0].clone()]];
    if names.len() >= 2 {
        lists.push(vec![names[1].clone(), names[0].clone(), names[1].clone()]);
    }
    for _ in 0..n_lists {
        let len = rng.range(2, 6) as usize;
        lists.push((0..len).map(|_| rng.pick(&names).clone()).collect());
    }
    for (li, l) in lists.iter().enumerate() {
        let expect: Vec<u8> = l.iter().flat_map(|n| fasta_of(n)).collect();
        let mut got = vec![];
        for (oi, ok) in [OutKind::Stdout, if li % 2 == 0 { OutKind::Existing } else { OutKind::Fresh }].iter().enumerate() {
            let (c, bytes) = getset_case(env, model, rep, ac, &arch, &marc, l, None, *ok, true, &format!("l{li}_{oi}"), "list");
            let case = json!({"archive": ac.desc, "names": l, "out": format!("{:?}", ok)});
            if c != "0" {
                rep.oracle_fail("getset-concat", &format!("getset with existing samples {:?} exits {c}", l), case.clone());
            } else if bytes != expect {
                rep.oracle_fail(
                    "getset-concat",
                    &format!("getset {:?}: {} output bytes, the concatenation of the single-sample extractions has {} ({})", l, bytes.len(), expect.len(),
                        crate::props::c01::first_diff(&expect, &bytes)),
                    case.clone(),
                );
            }
            got.push(bytes);
        }
        if got[0] != got[1] {
            rep.oracle_fail("getset-stdout-file-differ", &format!("getset {:?}: stdout has {} bytes, the -o file {}", l, got[0].len(), got[1].len()), json!({"archive": ac.desc, "names": l}));
        }
        if l.len() > 1 && l.iter().collect::<std::collections::HashSet<_>>().len() < l.len() {
            rep.count("branch_list_with_repeats");
        }
    }

    // ---- prefixes
    let all_p = distinct_prefixes(&names);
    let mut prefixes: Vec<String> = vec!["".into(), names[0].clone()];
    // the prefix matching the most samples (besides the empty one), one matching none
    if let Some(best) = all_p.iter().filter(|p| !p.is_empty()).max_by_key(|p| names.iter().filter(|n| n.starts_with(p.as_str())).count()) {
        prefixes.push(best.clone());
    }
    prefixes.push("zz-no-such".into());
    prefixes.push(format!("{}x", names[0]));
    for _ in 0..n_prefixes {
        prefixes.push(rng.pick(&all_p).clone());
    }
    prefixes.dedup();
    for (pi, p) in prefixes.iter().enumerate() {
        let matching: Vec<&String> = names.iter().filter(|n| n.starts_with(p.as_str())).collect();
        let expect: Vec<u8> = matching.iter().flat_map(|n| fasta_of(n)).collect();
        rep.count(match matching.len() {
            0 => "branch_prefix_matches_0",
            1 => "branch_prefix_matches_1",
            _ => "branch_prefix_matches_many",
        });
        // positional names are ignored when a prefix is given
        let extra: Vec<String> = if pi % 3 == 2 { vec![names[names.len() - 1].clone(), "ignored-unknown".into()] } else { vec![] };
        let mut got = vec![];
        for (oi, ok) in [OutKind::Stdout, OutKind::Fresh].iter().enumerate() {
            let (c, bytes) = getset_case(env, model, rep, ac, &arch, &marc, &extra, Some(p), *ok, true, &format!("p{pi}_{oi}"), "prefix");
            let case = json!({"archive": ac.desc, "prefix": p, "names": extra, "out": format!("{:?}", ok)});
            if matching.is_empty() {
                if c == "0" {
                    rep.oracle_fail("failure-exit-zero", &format!("getset --prefix {:?} matches no sample but exits 0", p), case.clone());
                }
            } else if c != "0" {
                rep.oracle_fail("getset-concat", &format!("getset --prefix {:?} (matches {:?}) exits {c}", p, matching), case.clone());
            } else if bytes != expect {
                rep.oracle_fail(
                    "getset-concat",
                    &format!("getset --prefix {:?}: {} bytes, the concatenation of {:?} in archive order has {}", p, bytes.len(), matching, expect.len()),
                    case.clone(),
                );
            }
            got.push(bytes);
        }
        if got[0] != got[1] && !matching.is_empty() {
            rep.oracle_fail("getset-stdout-file-differ", &format!("getset --prefix {:?}: stdout and -o differ", p), json!({"archive": ac.desc, "prefix": p}));
        }
    }

    // ---- failures: unknown names, no request, bad destination, bad temp dir
    let unknown = ["nope", "", "NOPE#1"];
    let shortened = names[0][..names[0].len().saturating_sub(1).max(0)].to_string();
    let mut fail_lists: Vec<Vec<String>> = vec![
        vec![unknown[0].into()],
        vec![unknown[0].into(), names[0].clone()],
        vec![names[0].clone(), unknown[0].into()],
        vec![names[0].clone(), unknown[2].into(), names[names.len() - 1].clone()],
        vec![names[names.len() - 1].clone(), names[0].clone(), format!("{}x", names[0])],
        vec![unknown[1].into()],
        vec![],
    ];
    if !names.contains(&shortened) {
        fail_lists.push(vec![names[0].clone(), shortened]);
    }
    for (fi, l) in fail_lists.iter().enumerate() {
        for (oi, ok) in [OutKind::Stdout, OutKind::Existing].iter().enumerate() {
            let (c, _) = getset_case(env, model, rep, ac, &arch, &marc, l, None, *ok, true, &format!("f{fi}_{oi}"), "unknown");
            if c == "0" {
                rep.oracle_fail("failure-exit-zero", &format!("getset {:?} (contains a name that is not in the archive, or no name) exits 0", l), json!({"archive": ac.desc, "names": l}));
            }
        }
    }
    {
        let l = vec![names[0].clone(), names[names.len() - 1].clone()];
        let (c, _) = getset_case(env, model, rep, ac, &arch, &marc, &l, None, OutKind::MissingDir, true, "md", "bad-output");
        if c == "0" {
            rep.oracle_fail("failure-exit-zero", "getset -o into a missing directory exits 0", json!({"archive": ac.desc}));
        }
        for (oi, ok) in [OutKind::Stdout, OutKind::Fresh].iter().enumerate() {
            let (c, _) = getset_case(env, model, rep, ac, &arch, &marc, &l, None, *ok, false, &format!("bt{oi}"), "bad-tempdir");
            if c == "0" {
                rep.oracle_fail("failure-exit-zero", "getset with an unusable temp directory exits 0", json!({"archive": ac.desc}));
            }
        }
    }

    // ---- unreadable archives
    let full = std::fs::read(&arch).unwrap_or_default();
    let bad_dir = ac.dir.join("bad");
    std::fs::create_dir_all(&bad_dir).unwrap();
    let mut bad: Vec<(String, PathBuf)> = vec![("missing".into(), bad_dir.join("missing.agc")), ("directory".into(), bad_dir.clone())];
    let mk = |name: &str, bytes: &[u8]| -> (String, PathBuf) {
        let p = bad_dir.join(format!("{name}.agc"));
        std::fs::write(&p, bytes).unwrap();
        (name.to_string(), p)
    };
    bad.push(mk("empty", b""));
    let garbage: Vec<u8> = (0..200).map(|_| rng.below(256) as u8).collect();
    bad.push(mk("garbage", &garbage));
    let cuts: Vec<usize> = if n_lists >= 8 {
        vec![1usize, 7, 8, 9, full.len() / 2, full.len().saturating_sub(9), full.len().saturating_sub(8), full.len().saturating_sub(1)]
    } else {
        vec![8usize, full.len() / 2, full.len().saturating_sub(8), full.len().saturating_sub(1)]
    };
    for cut in cuts {
        if cut < full.len() {
            bad.push(mk(&format!("trunc{cut}"), &full[..cut]));
        }
    }
    let mut fasta_as_archive = b">x\nACGT\n".to_vec();
    fasta_as_archive.extend_from_slice(&[0u8; 8]);
    bad.push(mk("fasta", &fasta_as_archive));
    for (bi, (what, p)) in bad.iter().enumerate() {
        for (oi, ok) in [OutKind::Stdout, OutKind::Existing].iter().enumerate() {
            let (c, _) = getset_case(env, model, rep, ac, p, "~", &[names[0].clone()], None, *ok, true, &format!("b{bi}_{oi}"), "bad-archive");
            if c == "0" {
                rep.oracle_fail("failure-exit-zero", &format!("getset on an unreadable archive ({what}) exits 0"), json!({"archive": ac.desc, "bad": what}));
            }
        }
        list_case(env, model, rep, ac, p, "~", false, &format!("bl{bi}"), what);
    }

    // ---- listset / listctg
    list_case(env, model, rep, ac, &arch, &marc, false, "ls0", "ok");
    list_case(env, model, rep, ac, &arch, &marc, true, "ls1", "ok");
    let ctg_lists: Vec<Vec<String>> = vec![
        vec![names[0].clone()],
        names.iter().rev().cloned().collect(),
        vec![names[0].clone(), names[0].clone()],
        vec![names[0].clone(), "nope".into()],
        vec!["nope".into(), names[0].clone()],
    ];
    for (ci, l) in ctg_lists.iter().enumerate() {
        listctg_case(env, model, rep, ac, &arch, &marc, l, ci % 2 == 1, &format!("lc{ci}"));
    }

    // ---- concurrent getset in one temp directory
    {
        let tmp = ac.dir.join("shared_tmp");
        std::fs::create_dir_all(&tmp).unwrap();
        let reqs: Vec<Vec<String>> = (0..6).map(|i| (0..(i % 3 + 1)).map(|j| names[(i + j) % names.len()].clone()).collect()).collect();
        let running: Vec<_> = reqs
            .iter()
            .map(|l| {
                let mut r = Run::new(env.bin, &["getset"]).path_arg(&arch).tmp(&tmp).timeout_s(120);
                for n in l {
                    r = r.arg(n);
                }
                r.spawn()
            })
            .collect();
        for (l, r) in reqs.iter().zip(running) {
            let case = json!({"kind": "concurrent", "archive": ac.desc, "names": l});
            rep.case(&case.to_string(), l.len() >= 2);
            rep.count("getset_concurrent");
            match r {
                Err(e) => rep.notes.push(format!("spawn failed: {e}")),
                Ok(r) => {
                    let o = r.wait();
                    check_abnormal(rep, &o, "concurrent getset", &case);
                    let expect: Vec<u8> = l.iter().flat_map(|n| fasta_of(n)).collect();
                    if o.class() != "0" || o.stdout != expect {
                        rep.oracle_fail(
                            "getset-concat",
                            &format!("getset {:?} running next to 5 others in the same temp directory: exit {}, {} bytes (expected {})", l, o.class(), o.stdout.len(), expect.len()),
                            case.clone(),
                        );
                    }
                    if let Some(m) = model.as_mut() {
                        let ans = m.ask(&format!("cli-getset {} {} ~ stdout 1 1 ~", marc, names_arg(l)));
                        let imp = format!("{} {} ~ ~", o.class(), hex(&o.stdout));
                        if ans != imp {
                            rep.disagree("getset-concurrent", case.clone(), &ans, &imp);
                        }
                    }
                }
            }
        }
        let left = cli::dir_entries(&tmp);
        if !left.is_empty() {
            rep.count("temp_file_left_behind");
            rep.notes.push(format!("archive {}: shared temp directory not empty after the concurrent runs: {:?}", ac.idx, left));
        }
    }
    if rep.samples.len() < 3 {
        rep.sample(json!({"archive": ac.desc, "samples": names, "archive_bytes": full.len(), "single_sample_fasta_bytes": ac.single.iter().map(|s| s.len()).collect::<Vec<_>>(),
            "lists": lists.len(), "prefixes": prefixes, "unreadable_variants": bad.len()}));
    }
}

fn list_case(env: &Env, model: &mut Option<Model>, rep: &mut Report, ac: &ArchCase, archive_path: &Path, marc: &str, to_file: bool, tag: &str, what: &str) {
    let run_dir = ac.dir.join(format!("r_{tag}"));
    let _ = std::fs::remove_dir_all(&run_dir);
    std::fs::create_dir_all(&run_dir).unwrap();
    let out_path = run_dir.join("list.txt");
    if to_file {
        std::fs::write(&out_path, b"old").unwrap();
    }
    let mut r = Run::new(env.bin, &["listset"]).path_arg(archive_path).timeout_s(60);
    if to_file {
        r = r.arg("-o").path_arg(&out_path);
    }
    let o = r.run();
    let after = cli::read_opt(&out_path);
    let case = json!({"kind": "listset", "archive": ac.desc, "what": what, "to_file": to_file});
    rep.case(&case.to_string(), true);
    rep.count("listset_cases");
    check_abnormal(rep, &o, "listset", &case);
    if marc == "~" && o.class() == "0" {
        rep.oracle_fail("failure-exit-zero", &format!("listset on an unreadable archive ({what}) exits 0"), case.clone());
    }
    if let Some(m) = model.as_mut() {
        let ans = m.ask(&format!("cli-listset {} {} 1 {}", marc, if to_file { "file" } else { "stdout" }, if to_file { hex(b"old") } else { "~".into() }));
        let imp = format!("{} {} {}", o.class(), hex(&o.stdout), opt_hex(&after));
        if ans != imp {
            rep.disagree("listset", case, &ans, &imp);
        }
    }
    let _ = std::fs::remove_dir_all(&run_dir);
}

fn listctg_case(env: &Env, model: &mut Option<Model>, rep: &mut Report, ac: &ArchCase, archive_path: &Path, marc: &str, names: &[String], to_file: bool, tag: &str) {
    let run_dir = ac.dir.join(format!("r_{tag}"));
    let _ = std::fs::remove_dir_all(&run_dir);
    std::fs::create_dir_all(&run_dir).unwrap();
    let out_path = run_dir.join("ctg.txt");
    let mut r = Run::new(env.bin, &["listctg"]).path_arg(archive_path).timeout_s(60);
    for n in names {
        r = r.arg(n);
    }
    if to_file {
        r = r.arg("-o").path_arg(&out_path);
    }
    let o = r.run();
    let after = cli::read_opt(&out_path);
    let case = json!({"kind": "listctg", "archive": ac.desc, "names": names, "to_file": to_file});
    rep.case(&case.to_string(), names.len() >= 2);
    rep.count("listctg_cases");
    check_abnormal(rep, &o, "listctg", &case);
    if names.iter().any(|n| !ac.names.contains(n)) && o.class() == "0" {
        rep.oracle_fail("failure-exit-zero", &format!("listctg {:?} (unknown sample) exits 0", names), case.clone());
    }
    if let Some(m) = model.as_mut() {
        let ans = m.ask(&format!("cli-listctg {} {} {} 1 ~", marc, names_arg(names), if to_file { "file" } else { "stdout" }));
        let imp = format!("{} {} {}", o.class(), hex(&o.stdout), opt_hex(&after));
        if ans != imp {
            rep.disagree("listctg", case, &ans, &imp);
        }
    }
    let _ = std::fs::remove_dir_all(&run_dir);
}

// ------------------------------------------------------------------ create: flags

#[derive(Clone, Debug)]
struct CreateCase {
    label: String,
    batch: bool,
    adaptive: bool,
    concatenated: bool,
    cpp: bool,
    verbosity: u32,
    /// `-t` argument as typed (None = absent)
    threads: Option<String>,
    /// `--queue-capacity` as typed (None = absent, i.e. the default "2G")
    capacity: Option<String>,
    /// which inputs: indices into the prepared input files; usize::MAX = a path that does not exist
    inputs: Vec<usize>,
    output: Option<&'static str>, // "ok", "missing-dir", None = no -o
    extra: Vec<String>,
}

impl CreateCase {
    fn base(label: &str, n_inputs: usize) -> CreateCase {
        CreateCase {
            label: label.into(),
            batch: false,
            adaptive: false,
            concatenated: false,
            cpp: false,
            verbosity: 0,
            threads: Some("2".into()),
            capacity: None,
            inputs: (0..n_inputs).collect(),
            output: Some("ok"),
            extra: vec![],
        }
    }
}

fn stderr_reason(s: &str) -> &'static str {
    if s.contains("Number of threads must be at least 1") || s.contains("num_threads must be at least 1") {
        "zero-threads"
    } else if s.contains("--cpp-agc requires") {
        "cpp-agc-not-built"
    } else if s.contains("does not support --adaptive or --concatenated") {
        "adaptive-or-concatenated"
    } else if s.contains("--batch (legacy batch mode) is not supported") {
        "batch"
    } else if s.contains("invalid digit found in string") || s.contains("cannot parse integer from empty string") || s.contains("number too large to fit") || s.contains("is too large") {
        "bad-capacity"
    } else {
        "other"
    }
}

fn create_flag_cases(env: &Env, model: &mut Option<Model>, rep: &mut Report, workdir: &str, set_idx: u64, thorough: bool) {
    let (set, single_file, pargs, desc) = gen_set(env.seed, set_idx);
    let dir = PathBuf::from(workdir).join(format!("c17_flags_{set_idx}"));
    let _ = std::fs::remove_dir_all(&dir);
    let mut prng = Rng::new(env.seed, 217, set_idx);
    let inputs = write_inputs(&dir, &set, single_file, &mut prng);
    let expect = expected_samples(&set, single_file);
    let n = inputs.len();
    let mut cases: Vec<CreateCase> = vec![];
    for bits in 0..16u32 {
        for v in [0u32, 1] {
            if !thorough && v == 1 && bits % 3 == 1 {
                continue;
            }
            let mut c = CreateCase::base(&format!("flags{bits:04b}v{v}"), n);
            c.batch = bits & 1 != 0;
            c.adaptive = bits & 2 != 0;
            c.concatenated = bits & 4 != 0;
            c.cpp = bits & 8 != 0;
            c.verbosity = v;
            // a bad capacity next to other rejected flags shows the order of the checks
            if bits % 5 == 4 {
                c.capacity = Some("bogus".into());
            }
            cases.push(c);
        }
    }
    for (i, t) in ["", "0", "1", "3", "64", "x", "-1"].iter().enumerate() {
        let mut c = CreateCase::base(&format!("threads{i}"), n);
        c.threads = if t.is_empty() { None } else { Some(t.to_string()) };
        c.verbosity = (i % 2) as u32;
        cases.push(c.clone());
        if *t == "0" {
            c.label = "threads0-batch".into();
            c.batch = true;
            cases.push(c.clone());
            c.label = "threads0-badcap".into();
            c.batch = false;
            c.capacity = Some("bogus".into());
            c.verbosity = 1;
            cases.push(c);
        }
    }
    for (i, q) in ["2G", "1M", "5k", " 7m ", "4000", "+9000", "1", "0", "0K", "17179869183G", "17179869184G", "18014398509481984K", "99999999999999999999",
        "x", "", "G", "1.5G", "1 G", "-1", "1GB", "0x10"].iter().enumerate()
    {
        for v in [0u32, 1] {
            if !thorough && v == 0 && i % 2 == 1 {
                continue;
            }
            let mut c = CreateCase::base(&format!("cap{i}v{v}"), n);
            c.capacity = Some(q.to_string());
            c.verbosity = v;
            cases.push(c);
        }
    }
    {
        let mut c = CreateCase::base("no-inputs", n);
        c.inputs = vec![];
        cases.push(c);
        let mut c = CreateCase::base("missing-first-input", n);
        c.inputs.insert(0, usize::MAX);
        cases.push(c);
        let mut c = CreateCase::base("missing-last-input", n);
        c.inputs.push(usize::MAX);
        cases.push(c);
        let mut c = CreateCase::base("only-missing-input", n);
        c.inputs = vec![usize::MAX];
        cases.push(c);
        let mut c = CreateCase::base("no-output-flag", n);
        c.output = None;
        cases.push(c);
        let mut c = CreateCase::base("output-in-missing-dir", n);
        c.output = Some("missing-dir");
        cases.push(c);
        let mut c = CreateCase::base("unknown-flag", n);
        c.extra = vec!["--no-such-flag".into()];
        cases.push(c);
        let mut c = CreateCase::base("batch-missing-input", n);
        c.batch = true;
        c.inputs = vec![usize::MAX];
        cases.push(c);
    }
    let missing = dir.join("does_not_exist.fa");
    for (ci, c) in cases.iter().enumerate() {
        let run_dir = dir.join(format!("r{ci}"));
        std::fs::create_dir_all(&run_dir).unwrap();
        let out_path = match c.output {
            Some("ok") => Some(run_dir.join("o.agc")),
            Some(_) => Some(run_dir.join("nodir").join("o.agc")),
            None => None,
        };
        let mut r = Run::new(env.bin, &["create"]).timeout_s(300);
        if let Some(p) = &out_path {
            r = r.arg("-o").path_arg(p);
        }
        r = r.arg("-v").arg(&c.verbosity.to_string());
        for a in pargs.iter().take(6) {
            r = r.arg(a); // -k -s -m (the generator's -t is replaced)
        }
        if let Some(t) = &c.threads {
            r = r.arg(&format!("--threads={t}"));
        }
        if let Some(q) = &c.capacity {
            r = r.arg(&format!("--queue-capacity={q}"));
        }
        if c.batch {
            r = r.arg("--batch");
        }
        if c.adaptive {
            r = r.arg("--adaptive");
        }
        if c.concatenated {
            r = r.arg("--concatenated");
        }
        if c.cpp {
            r = r.arg("--cpp-agc");
        }
        for e in &c.extra {
            r = r.arg(e);
        }
        for &i in &c.inputs {
            r = r.path_arg(if i == usize::MAX { &missing } else { &inputs[i] });
        }
        let o = r.run();
        let case = json!({"kind": "create-flags", "set": desc, "label": c.label, "args": r.args});
        rep.case(&case.to_string(), c.batch || c.adaptive || c.concatenated || c.cpp || c.capacity.is_some() || c.threads.as_deref() != Some("2"));
        rep.count("create_flag_cases");
        rep.count(&format!("create_flags_exit_{}", o.class()));
        let exists = out_path.as_ref().map(|p| p.is_file()).unwrap_or(false);
        if o.timed_out {
            rep.oracle_fail("create-hang", &format!("create [{}] did not exit within the timeout", c.label), case.clone());
            continue;
        }
        check_abnormal(rep, &o, "create", &case);
        // ---- oracle
        let inputs_ok = !c.inputs.contains(&usize::MAX);
        let unsupported = c.batch || c.adaptive || c.concatenated || c.cpp || c.threads.as_deref() == Some("0");
        if (unsupported || !inputs_ok || c.inputs.is_empty() || c.output != Some("ok") || !c.extra.is_empty()) && o.class() == "0" {
            rep.oracle_fail("failure-exit-zero", &format!("create [{}] must fail but exits 0", c.label), case.clone());
        }
        if o.class() == "0" {
            let p = out_path.clone().unwrap_or_default();
            let l = Run::new(env.bin, &["listset"]).path_arg(&p).run();
            let listed: Vec<String> = String::from_utf8_lossy(&l.stdout).lines().map(|s| s.to_string()).collect();
            if !exists || l.class() != "0" || expect.iter().any(|e| !listed.contains(&e.0)) {
                rep.oracle_fail(
                    "create-ok-but-missing",
                    &format!("create [{}] exits 0; archive exists: {exists}; listset exits {} and lists {:?}; input samples {:?}", c.label, l.class(), listed,
                        expect.iter().map(|e| &e.0).collect::<Vec<_>>()),
                    case.clone(),
                );
            } else {
                for e in &expect {
                    let g = Run::new(env.bin, &["getset"]).path_arg(&p).arg(&e.0).tmp(&run_dir).run();
                    let got = count_bases(&g.stdout);
                    if g.class() != "0" || got != e.1 {
                        rep.oracle_fail("create-ok-but-empty", &format!("create [{}] exits 0 but sample {} extracts with exit {} and {} bases (input: {})", c.label, e.0, g.class(), got, e.1), case.clone());
                        break;
                    }
                }
                rep.count("create_ok_verified");
            }
        }
        // ---- model
        if let Some(m) = model.as_mut() {
            let threads_valid = c.threads.as_ref().map(|t| t.parse::<usize>().is_ok()).unwrap_or(true);
            let clap_ok = threads_valid && c.extra.is_empty();
            let cap_s = c.capacity.clone().unwrap_or_else(|| "2G".into());
            let th = match &c.threads {
                None => "~".to_string(),
                Some(t) => t.parse::<usize>().map(|x| x.to_string()).unwrap_or_else(|_| "~".into()),
            };
            let ans = m.ask(&format!(
                "cli-create {} {} {} {} {} {} {} {} {} 0 {} {} 1",
                if c.output.is_some() { 1 } else { 0 },
                c.inputs.len(),
                c.verbosity,
                c.adaptive as u8,
                c.concatenated as u8,
                c.batch as u8,
                c.cpp as u8,
                hex(cap_s.as_bytes()),
                th,
                inputs_ok as u8,
                (c.output == Some("ok")) as u8
            ));
            let (mdisp, mcode) = ans.split_once(' ').unwrap_or(("?", "?"));
            let (mdisp, mcode) = if clap_ok { (mdisp.to_string(), mcode.to_string()) } else { ("usage".to_string(), "2".to_string()) };
            if mcode != o.class() {
                rep.disagree("create-exit", case.clone(), &format!("{mdisp} {mcode}"), &format!("{} {}", o.class(), clip(&o.stderr_text())));
            }
            // the reason on stderr shows which check fired first
            if let Some(why) = mdisp.strip_prefix("reject:") {
                let got = stderr_reason(&o.stderr_text());
                rep.count(&format!("create_reject_{why}"));
                if got != why {
                    rep.disagree("create-reject-reason", case.clone(), why, &format!("{got}: {}", clip(&o.stderr_text())));
                }
                if exists {
                    rep.disagree("create-reject-created-output", case.clone(), "no output file", "output file exists");
                }
            }
            if mdisp.starts_with("streaming") {
                rep.count("create_dispatch_streaming");
                // capacity as parsed (printed when verbose)
                if c.verbosity > 0 {
                    let txt = o.stderr_text();
                    let printed = txt.lines().find_map(|l| l.trim().strip_prefix("queue capacity: ").and_then(|r| r.split(' ').next()).map(|s| s.to_string()));
                    let want = mdisp.rsplit(':').next().unwrap_or("").to_string();
                    if printed.as_deref() != Some(want.as_str()) {
                        rep.disagree("create-capacity-value", case.clone(), &want, &format!("{:?}", printed));
                    }
                    rep.count("capacity_value_compared");
                }
            }
        }
        if rep.samples.len() < 6 && (c.label == "flags0001v0" || c.label == "cap3v1") {
            rep.sample(json!({"create": c.label, "args": r.args.iter().skip(1).take(12).collect::<Vec<_>>(), "exit": o.class(),
                "stderr_first_line": o.stderr_text().lines().next().unwrap_or("").to_string(), "output_exists": exists}));
        }
        let _ = std::fs::remove_dir_all(&run_dir);
    }
    let _ = std::fs::remove_dir_all(&dir);
}

/// `parse_capacity` alone, many strings: the value printed by `create -v 1` before it fails on a
/// missing input (cheap: no archive is written) against `cli-capacity`.
fn capacity_stream(env: &Env, model: &mut Option<Model>, rep: &mut Report, workdir: &str, n_random: u64, only: Option<String>) {
    let dir = PathBuf::from(workdir).join("c17_cap");
    std::fs::create_dir_all(&dir).unwrap();
    let missing = dir.join("missing.fa");
    let mut strs: Vec<String> = ["2G", "2g", "1K", "1k", "1M", "1m", "0", "00012", "+5", "+", "-5", "5 k", " 5k", "5k ", "\t5k\n", "K", "kk", "1kk", "1KG", "12G3",
        "18446744073709551615", "18446744073709551616", "17592186044415M", "17592186044416M", "18014398509481983K", "18014398509481984K", "16G", "٣"]
        .iter()
        .map(|s| s.to_string())
        .collect();
    for i in 0..n_random {
        let mut rng = Rng::new(env.seed, 317, i);
        let len = rng.range(0, 6) as usize;
        let alphabet = b"0123456789KMGkmg +-.x";
        let mut s: String = (0..len).map(|_| *rng.pick(alphabet) as char).collect();
        if rng.chance(1, 2) {
            s = format!("{}{}", rng.below(1 << 40), rng.pick(&["", "K", "M", "G", "k", "m", "g"]));
        }
        strs.push(s);
    }
    if let Some(o) = only {
        strs = vec![o];
    }
    for s in strs {
        let o = Run::new(env.bin, &["create", "-v", "1", "-t", "1", "-o"])
            .path_arg(&dir.join("never.agc"))
            .arg(&format!("--queue-capacity={s}"))
            .path_arg(&missing)
            .timeout_s(30)
            .run();
        let case = json!({"kind": "capacity", "string": s});
        rep.case(&case.to_string(), !s.is_empty());
        rep.count("capacity_cases");
        check_abnormal(rep, &o, "create (capacity probe)", &case);
        if o.class() == "0" {
            rep.oracle_fail("failure-exit-zero", "create with a missing input exits 0", case.clone());
        }
        let txt = o.stderr_text();
        let printed = txt.lines().find_map(|l| l.trim().strip_prefix("queue capacity: ").and_then(|r| r.split(' ').next()).map(|x| x.to_string()));
        let imp = match printed {
            Some(v) => format!("ok {v}"),
            None => "err".to_string(),
        };
        rep.count(if imp == "err" { "capacity_rejected" } else { "capacity_accepted" });
        if !s.is_ascii() {
            rep.count("capacity_non_ascii_not_modelled");
            continue;
        }
        if let Some(m) = model.as_mut() {
            let ans = m.ask(&format!("cli-capacity {}", hex(s.as_bytes())));
            if ans != imp {
                rep.disagree("capacity", case, &ans, &imp);
            }
        }
    }
    let _ = std::fs::remove_dir_all(&dir);
}

pub fn run(ctx: &mut Ctx) -> Report {
    let mut rep = Report::new(
        "C17",
        "archives created by the binary from the structured generator (2-7 samples with prefix-related names, multi-file and single-file PanSN); per archive: every single sample, \
         name lists with repeats/reorderings, prefixes (empty / full name / most-matching / none / with ignored positionals), unknown names first/middle/last, no request, \
         each to stdout and -o (fresh, pre-existing, missing directory), unusable temp directory, 12+ unreadable archive variants, listset/listctg, 6 concurrent getset runs; \
         create: 16 flag combinations x verbosity, -t values, 21 --queue-capacity strings, missing/absent inputs and outputs, unknown flag; parse_capacity on fixed and random strings; \
         a case is one process run; non-trivial when it asks for >= 2 samples / uses a prefix / deviates from the default create flags",
    );
    let bin = match cli::ragc_path() {
        Some(b) => b,
        None => {
            rep.notes.push("VERIF_RAGC not set: nothing ran".into());
            rep.count("cli_binary_missing");
            return rep;
        }
    };
    let seed = ctx.seed;
    let workdir = ctx.workdir.clone();
    let thorough = ctx.tier == crate::Tier::Thorough;
    if let Some(r) = ctx.replay.clone() {
        // replay at the granularity of the generated unit the case belongs to
        let c = &r["case"];
        let env = Env { bin: &bin, seed: c["archive"]["seed"].as_u64().or(c["set"]["seed"].as_u64()).unwrap_or(seed) };
        let mut m = ctx.spawn_model();
        if c["kind"] == "create-flags" {
            create_flag_cases(&env, &mut m, &mut rep, &workdir, c["set"]["index"].as_u64().unwrap_or(0), true);
        } else if c["kind"] == "capacity" {
            capacity_stream(&env, &mut m, &mut rep, &workdir, 0, c["string"].as_str().map(|s| s.to_string()));
        } else {
            let idx = c["archive"]["index"].as_u64().unwrap_or(0);
            if let Some(mut ac) = prepare(&env, &mut rep, &workdir, idx) {
                archive_cases(&env, &mut m, &mut rep, &mut ac, 8, 8);
            }
        }
        return rep;
    }
    let n_arch = ctx.t(5u64, 30u64);
    let n_lists = ctx.t(3usize, 10usize);
    let n_prefixes = ctx.t(3usize, 8usize);
    let n_flag_sets = ctx.t(2u64, 4u64);
    let n_cap = ctx.t(60u64, 600u64);
    let bin_ref = &bin;
    // units of work: archives, flag sets, the capacity stream
    let n_units = n_arch + n_flag_sets + 1;
    crate::props::par_cases(ctx, &mut rep, n_units, 6, |m, r, i| {
        let env = Env { bin: bin_ref, seed };
        if i < n_arch {
            if let Some(mut ac) = prepare(&env, r, &workdir, i) {
                archive_cases(&env, m, r, &mut ac, n_lists, n_prefixes);
                let _ = std::fs::remove_dir_all(&ac.dir);
            }
        } else if i < n_arch + n_flag_sets {
            // flag sets: one multi-file and one single-file input set (indices 1000, 1001, …)
            create_flag_cases(&env, m, r, &workdir, 1000 + (i - n_arch), thorough);
        } else {
            capacity_stream(&env, m, r, &workdir, n_cap, None);
        }
    });
    if rep.counters.get("archive_with_multi_pack_delta_stream").copied().unwrap_or(0) == 0 {
        rep.notes.push("generator gap: no archive of this run has a delta stream with >= 2 packs; a getset crossing a pack boundary was not exercised".into());
    }
    rep
}
