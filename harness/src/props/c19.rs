//! C19 extraction is invariant under how the input is presented.
//!
//! The same sample set is rendered plain / gzip / multi-member gzip (member boundaries anywhere,
//! one forced inside the first header), line widths {1, 7, 60, 100000}, LF / CRLF, upper / lower /
//! mixed case, with / without final newline, as per-sample files and — for PanSN headers — as one
//! file. Checked: (a) the model's `render` produces the same text as the harness' renderer and
//! the real reader (through `GenomeIO::open`, i.e. through `MultiGzDecoder` for `.gz`) returns
//! what the model's parser returns and what `canon` says; (b) archives built from presentations
//! that differ only in compression / wrapping / line ends / case are byte identical (sha256,
//! one fixed thread count); (c) sample list and extracted contigs are the same across all
//! presentations including PanSN-file versus per-sample files.
use crate::gen::archive::{self, Params};
use crate::gen::genomes::{self, GenOpts, SampleSet, LETTERS};
use crate::model::{hex, Model};
use crate::props::c04::sha;
use crate::props::c16::parser_file_case;
use crate::props::guarded;
use crate::report::Report;
use crate::rng::Rng;
use crate::Ctx;
use ragc_core::GenomeIO;
use serde_json::{json, Value};
use std::io::{Read, Write};
use std::path::{Path, PathBuf};

#[derive(Clone, Debug)]
pub struct Pres {
    pub width: usize,
    pub crlf: bool,
    /// 0 upper, 1 lower, 2 mixed
    pub case: u8,
    /// 0 plain, 1 gzip single member, 2 multi-member
    pub gz: u8,
    pub final_newline: bool,
}

impl Pres {
    pub fn baseline() -> Pres {
        Pres { width: 60, crlf: false, case: 0, gz: 0, final_newline: true }
    }
    fn random(rng: &mut Rng) -> Pres {
        Pres {
            width: *rng.pick(&[1usize, 7, 60, 100_000]),
            crlf: rng.chance(1, 2),
            case: rng.below(3) as u8,
            gz: rng.below(3) as u8,
            final_newline: !rng.chance(1, 4),
        }
    }
    fn json(&self) -> Value {
        json!({"width": self.width, "crlf": self.crlf, "case": self.case, "gz": self.gz, "final_newline": self.final_newline})
    }
}

/// Render records; returns the text and, per record, the lower-case bits chosen.
pub fn render(rng: &mut Rng, contigs: &[(String, Vec<u8>)], p: &Pres) -> (Vec<u8>, Vec<Vec<u8>>) {
    let nl: &[u8] = if p.crlf { b"\r\n" } else { b"\n" };
    let mut out = vec![];
    let mut all_bits = vec![];
    for (ci, (h, s)) in contigs.iter().enumerate() {
        let last_rec = ci + 1 == contigs.len();
        let bits: Vec<u8> = s
            .iter()
            .map(|_| match p.case {
                0 => 0u8,
                1 => 1,
                _ => rng.below(2) as u8,
            })
            .collect();
        let cased: Vec<u8> = s.iter().zip(&bits).map(|(&c, &b)| if b == 1 { c.to_ascii_lowercase() } else { c.to_ascii_uppercase() }).collect();
        let mut lines: Vec<Vec<u8>> = vec![];
        let mut hl = vec![b'>'];
        hl.extend_from_slice(h.as_bytes());
        lines.push(hl);
        lines.extend(cased.chunks(p.width).map(|c| c.to_vec()));
        let n = lines.len();
        for (li, l) in lines.iter().enumerate() {
            out.extend_from_slice(l);
            if !(last_rec && li + 1 == n) || p.final_newline {
                out.extend_from_slice(nl);
            }
        }
        all_bits.push(bits);
    }
    (out, all_bits)
}

fn gzip_member(data: &[u8]) -> Vec<u8> {
    let mut e = flate2::write::GzEncoder::new(Vec::new(), flate2::Compression::fast());
    e.write_all(data).unwrap();
    e.finish().unwrap()
}

/// Write the text as `dir/stem.fa` or `dir/stem.fa.gz`; multi-member: boundaries anywhere, the
/// first one inside the first header line.
pub fn write_text(rng: &mut Rng, dir: &Path, stem: &str, text: &[u8], gz: u8, rep: &mut Report) -> PathBuf {
    let (path, bytes) = match gz {
        0 => (dir.join(format!("{stem}.fa")), text.to_vec()),
        1 => (dir.join(format!("{stem}.fa.gz")), gzip_member(text)),
        _ => {
            let first_line = text.iter().position(|&c| c == b'\n').unwrap_or(text.len()).max(2);
            let mut cuts: Vec<usize> = vec![0, text.len(), rng.range(1, first_line as u64 - 1) as usize];
            for _ in 0..rng.range(0, 3) {
                cuts.push(rng.below(text.len().max(1) as u64) as usize);
            }
            if rng.chance(1, 2) {
                // right after a line end
                if let Some(p) = text.iter().position(|&c| c == b'\n') {
                    cuts.push(p + 1);
                }
            }
            if rng.chance(1, 2) {
                // exactly BETWEEN records: one member ends with the newline, the next starts with '>'
                // (what `cat a.fa.gz b.fa.gz` and per-record bgzip blocks give)
                for i in 1..text.len() {
                    if text[i] == b'>' && text[i - 1] == b'\n' && rng.chance(2, 3) {
                        cuts.push(i);
                        rep.count("branch_member_boundary_between_records");
                    }
                }
            }
            cuts.retain(|&c| c <= text.len());
            cuts.sort();
            cuts.dedup();
            rep.add("gzip_members", cuts.len() as u64 - 1);
            rep.count("branch_member_boundary_inside_header");
            // bgzip-style: sometimes EMPTY members between the parts and at the end (`cat` of bgzip
            // files: every bgzip file ends with an empty BGZF EOF block)
            let empties = rng.chance(1, 2);
            let mut b = vec![];
            for w in cuts.windows(2) {
                b.extend(gzip_member(&text[w[0]..w[1]]));
                if empties && rng.chance(2, 3) {
                    b.extend(gzip_member(&[]));
                    rep.count("branch_empty_gzip_member");
                }
            }
            (dir.join(format!("{stem}.fa.gz")), b)
        }
    };
    std::fs::write(&path, bytes).expect("write fasta");
    path
}

pub struct Case {
    pub set: SampleSet,
    pub params: Params,
    pub pansn: bool,
    pub desc: Value,
}

pub fn gen_case(seed: u64, idx: u64) -> Case {
    let mut rng = Rng::new(seed, 19, idx);
    let pansn = idx % 2 == 0;
    let k = *rng.pick(&[9usize, 11, 15, 21]);
    let o = GenOpts {
        n_samples: rng.range(2, 4) as usize,
        n_contigs: rng.range(1, 4) as usize,
        len_lo: 60,
        len_hi: *rng.pick(&[300usize, 900, 2500]),
        div_per_mille: *rng.pick(&[5u64, 20, 50]),
        iupac: true,
        n_runs: true,
        revcomp: rng.chance(1, 2),
        structural: rng.chance(1, 2),
        short_contigs: rng.chance(1, 3),
        k,
        pansn,
        descriptions: rng.chance(1, 2),
    };
    let mut set = genomes::gen_sample_set(&mut rng, &o);
    if pansn && idx % 4 == 0 {
        // prefix-related sample names in file order (p#1, p#10, p#100, …): one name is a string prefix
        // of the next, which a reader that recognises "same sample" by prefix would merge
        const HAPS: [usize; 6] = [1, 10, 100, 11, 2, 20];
        for (i, smp) in set.samples.iter_mut().enumerate() {
            let new = format!("p#{}", HAPS[i % HAPS.len()]);
            for c in smp.contigs.iter_mut() {
                let rest = c.0.splitn(3, '#').nth(2).unwrap_or("c").to_string();
                c.0 = format!("{new}#{rest}");
            }
            smp.name = new;
        }
    }
    let params = Params {
        k,
        segment_size: *rng.pick(&[60usize, 150, 400]),
        min_match_len: *rng.pick(&[15usize, 20]),
        pack_size: 50,
        threads: 2,
        queue_capacity: 1 << 30,
        fallback_frac: 0.0,
    };
    let contigs: usize = set.samples.iter().map(|s| s.contigs.len()).sum();
    let desc = json!({"seed": seed, "index": idx, "pansn": pansn, "contigs": contigs, "params": params.to_json()});
    Case { set, params, pansn, desc }
}

fn code_of(c: u8) -> u8 {
    LETTERS.iter().position(|&l| l == c.to_ascii_uppercase()).map(|p| p as u8).unwrap_or(30)
}

/// Present one group of contigs as a file, check reader and model on it, return the path.
#[allow(clippy::too_many_arguments)]
fn present(rng: &mut Rng, model: &mut Option<Model>, rep: &mut Report, dir: &Path, stem: &str, contigs: &[(String, Vec<u8>)], p: &Pres, case: &Value) -> PathBuf {
    let t0 = std::time::Instant::now();
    let (text, bits) = render(rng, contigs, p);
    let path = write_text(rng, dir, stem, &text, p.gz, rep);
    rep.count("files_presented");
    // (a1) the model's `render` is this renderer
    if let Some(m) = model.as_mut() {
        let mut req = format!("fasta-render {}", if p.final_newline { 1 } else { 0 });
        for ((h, s), b) in contigs.iter().zip(&bits) {
            req.push_str(&format!(" {}:{}:{}:{}:{}", hex(h.as_bytes()), hex(s), p.width, if p.crlf { 1 } else { 0 }, hex(b)));
        }
        let ans = m.ask(&req);
        let imp = format!("ok {}", hex(&text));
        if ans != imp {
            rep.disagree("render", json!({"case": case, "pres": p.json(), "stem": stem}), &ans, &imp);
        }
    }
    // (a2) reader on the presented file (through the gzip decoder) = model parser on the text
    parser_file_case(model, rep, &path, &text, json!({"case": case, "pres": p.json(), "stem": stem, "hex": hex(&text)}));
    // (a3) ... and equals `canon` of the records, computed here from scratch
    let p2 = path.clone();
    let got = guarded(|| {
        let mut out = vec![];
        if let Ok(mut g) = GenomeIO::<Box<dyn Read>>::open(&p2) {
            while let Ok(Some((id, c))) = g.read_contig_converted() {
                out.push((id, c));
            }
        }
        out
    })
    .unwrap_or_default();
    let want: Vec<(String, Vec<u8>)> = contigs.iter().map(|(h, s)| (h.trim().to_string(), s.iter().map(|&c| code_of(c)).collect())).collect();
    if got != want {
        rep.oracle_fail(
            "presentation-parse-differ",
            &format!("reader output differs from the records under presentation {:?} of {stem}: {} records read, {} expected", p, got.len(), want.len()),
            json!({"case": case, "pres": p.json(), "stem": stem, "hex": crate::report::clip(&hex(&text))}),
        );
    }
    rep.add("time_ms_present", t0.elapsed().as_millis() as u64);
    path
}

type Extraction = Vec<(String, Vec<(String, Vec<u8>)>)>;

fn build(rep: &mut Report, inputs: &[PathBuf], out: &Path, params: &Params, what: &str, case: &Value) -> Option<String> {
    rep.count("archives_built");
    let t0 = std::time::Instant::now();
    let r = guarded(|| archive::create_archive(inputs, out, params));
    rep.add("time_ms_create", t0.elapsed().as_millis() as u64);
    match r {
        Err(p) => {
            rep.oracle_fail("create-panic", &format!("create panicked ({what}): {p}"), case.clone());
            None
        }
        Ok(Err(e)) => {
            rep.oracle_fail("create-error", &format!("create failed ({what}): {e}"), case.clone());
            None
        }
        Ok(Ok(())) => Some(sha(out)),
    }
}

fn extract(rep: &mut Report, out: &Path, what: &str, case: &Value) -> Option<Extraction> {
    let t0 = std::time::Instant::now();
    let r = guarded(|| archive::extract_all(out));
    rep.add("time_ms_extract", t0.elapsed().as_millis() as u64);
    match r {
        Ok(Ok(x)) => Some(x),
        e => {
            rep.oracle_fail("extract-error", &format!("extraction failed ({what}): {:?}", e.map(|r| r.map(|_| ()))), case.clone());
            None
        }
    }
}

pub fn run_case(workdir: &str, model: &mut Option<Model>, rep: &mut Report, case: &Case, tag: &str, n_variants: usize) {
    let dir = PathBuf::from(workdir).join(format!("c19_{tag}"));
    let _ = std::fs::remove_dir_all(&dir);
    let idx = case.desc["index"].as_u64().unwrap_or(0);
    let seed = case.desc["seed"].as_u64().unwrap_or(1);
    let mut rng = Rng::new(seed, 119, idx);
    let contigs_total: usize = case.set.samples.iter().map(|s| s.contigs.len()).sum();
    rep.case(&case.desc.to_string(), contigs_total >= 2);
    rep.count(if case.pansn { "sets_pansn" } else { "sets_plain_headers" });

    let present_files = |rng: &mut Rng, model: &mut Option<Model>, rep: &mut Report, sub: &str, p: &Pres| -> Vec<PathBuf> {
        let d = dir.join(sub);
        std::fs::create_dir_all(&d).unwrap();
        case.set.samples.iter().map(|s| present(rng, model, rep, &d, &s.name.replace('#', "_"), &s.contigs, p, &case.desc)).collect()
    };
    let count_pres = |rep: &mut Report, p: &Pres| {
        rep.count(&format!("pres_width_{}", p.width));
        rep.count(if p.crlf { "pres_crlf" } else { "pres_lf" });
        rep.count(["pres_upper", "pres_lower", "pres_mixed"][p.case as usize]);
        rep.count(["pres_plain", "pres_gz_single", "pres_gz_multi"][p.gz as usize]);
        if !p.final_newline {
            rep.count("pres_no_final_newline");
        }
    };

    // ---- per-sample files: baseline and variants
    let base = Pres::baseline();
    let inputs0 = present_files(&mut rng, model, rep, "f0", &base);
    let out0 = dir.join("f0.agc");
    let sha0 = build(rep, &inputs0, &out0, &case.params, "per-sample files, baseline", &case.desc);
    let ext0 = sha0.as_ref().and_then(|_| extract(rep, &out0, "per-sample files, baseline", &case.desc));
    // the baseline extraction is the input (names, order, letters)
    if let Some(e0) = &ext0 {
        let want: Extraction = {
            let mut w: Extraction = vec![];
            for s in &case.set.samples {
                let stem = s.name.replace('#', "_");
                for (h, seq) in &s.contigs {
                    let parts: Vec<&str> = h.split('#').collect();
                    let name = if parts.len() >= 3 { format!("{}#{}", parts[0], parts[1]) } else { stem.clone() };
                    let codes: Vec<u8> = seq.iter().map(|&c| code_of(c)).collect();
                    let id = h.trim().to_string();
                    if let Some(e) = w.iter_mut().find(|e| e.0 == name) {
                        e.1.push((id, codes));
                    } else {
                        w.push((name, vec![(id, codes)]));
                    }
                }
            }
            w
        };
        if *e0 != want {
            rep.oracle_fail("presentation-extract-differ", "baseline extraction differs from the input sample set", case.desc.clone());
        }
    }
    for v in 0..n_variants {
        let p = Pres::random(&mut rng);
        count_pres(rep, &p);
        let inputs = present_files(&mut rng, model, rep, &format!("f{}", v + 1), &p);
        let out = dir.join(format!("f{}.agc", v + 1));
        let vcase = json!({"case": case.desc, "mode": "per-sample files", "variant": v, "pres": p.json()});
        if let (Some(s0), Some(s)) = (&sha0, build(rep, &inputs, &out, &case.params, &format!("per-sample files, {:?}", p), &vcase)) {
            if *s0 != s {
                rep.oracle_fail("presentation-bytes-differ", &format!("per-sample files: archive of presentation {:?} differs from the plain/60/LF/upper one ({} vs {})", p, &s[..12], &s0[..12]), vcase.clone());
                if let (Some(e0), Some(e)) = (&ext0, extract(rep, &out, "variant", &vcase)) {
                    if *e0 != e {
                        rep.oracle_fail("presentation-extract-differ", &format!("per-sample files: extraction under presentation {:?} differs from the baseline", p), vcase.clone());
                    }
                }
            } else {
                rep.count("archives_byte_identical");
            }
        }
        let _ = std::fs::remove_file(&out);
    }

    // ---- one PanSN file: baseline and variants; extraction equal to the per-sample files
    if case.pansn && contigs_total < 50 {
        let all: Vec<(String, Vec<u8>)> = case.set.samples.iter().flat_map(|s| s.contigs.clone()).collect();
        let d = dir.join("s0");
        std::fs::create_dir_all(&d).unwrap();
        let input = present(&mut rng, model, rep, &d, "all", &all, &base, &case.desc);
        let outs = dir.join("s0.agc");
        let scase = json!({"case": case.desc, "mode": "single PanSN file"});
        let shas = build(rep, &[input], &outs, &case.params, "single PanSN file, baseline", &scase);
        if shas.is_some() {
            rep.count("pansn_vs_files_compared");
            if let (Some(e0), Some(e)) = (&ext0, extract(rep, &outs, "single PanSN file", &scase)) {
                if *e0 != e {
                    let names = |x: &Extraction| x.iter().map(|s| (s.0.clone(), s.1.iter().map(|c| (c.0.clone(), c.1.len())).collect::<Vec<_>>())).collect::<Vec<_>>();
                    rep.oracle_fail("presentation-extract-differ", &format!("one PanSN file and per-sample files extract differently: files {:?} single {:?}", names(e0), names(&e)), scase.clone());
                }
            }
        }
        for v in 0..n_variants.div_ceil(2) {
            let p = Pres::random(&mut rng);
            count_pres(rep, &p);
            let d = dir.join(format!("s{}", v + 1));
            std::fs::create_dir_all(&d).unwrap();
            let input = present(&mut rng, model, rep, &d, "all", &all, &p, &case.desc);
            let out = dir.join(format!("s{}.agc", v + 1));
            let vcase = json!({"case": case.desc, "mode": "single PanSN file", "variant": v, "pres": p.json()});
            if let (Some(s0), Some(s)) = (&shas, build(rep, &[input], &out, &case.params, &format!("single file, {:?}", p), &vcase)) {
                if *s0 != s {
                    rep.oracle_fail("presentation-bytes-differ", &format!("single PanSN file: archive of presentation {:?} differs from the plain/60/LF/upper one", p), vcase.clone());
                    if let (Some(e0), Some(e)) = (&ext0, extract(rep, &out, "variant", &vcase)) {
                        if *e0 != e {
                            rep.oracle_fail("presentation-extract-differ", &format!("single PanSN file: extraction under presentation {:?} differs", p), vcase.clone());
                        }
                    }
                } else {
                    rep.count("archives_byte_identical");
                }
            }
            let _ = std::fs::remove_file(&out);
        }
    }
    if rep.samples.len() < 3 {
        rep.sample(json!({"case": case.desc, "sha256_files_baseline": sha0}));
    }
    let _ = std::fs::remove_dir_all(&dir);
}

pub fn run(ctx: &mut Ctx) -> Report {
    let mut rep = Report::new(
        "C19",
        "sample sets of the C01 generator (2..4 samples, 1..4 contigs + structural variants, IUPAC codes, N runs, headers with descriptions; \
         half of the sets with PanSN headers), each presented as per-sample files plain/60/LF/upper and in random presentations from \
         {plain, gzip, multi-member gzip with a boundary inside the first header} x widths {1,7,60,100000} x {LF,CRLF} x {upper,lower,mixed} \
         x {final newline or not}, and (PanSN sets, < 50 contigs) as one file; one thread count (2) throughout; a case is a sample set, non-trivial with >= 2 contigs",
    );
    if let Some(r) = ctx.replay.clone() {
        let c = &r["case"];
        let c = if c["case"].is_object() { &c["case"] } else { c };
        let c = if c["case"].is_object() { &c["case"] } else { c };
        let case = gen_case(c["seed"].as_u64().unwrap_or(1), c["index"].as_u64().unwrap_or(0));
        let mut m = ctx.spawn_model();
        run_case(&ctx.workdir, &mut m, &mut rep, &case, "replay", 6);
        return rep;
    }
    let n = ctx.t(6u64, 60);
    let n_variants = ctx.t(3usize, 6);
    let (seed, workdir) = (ctx.seed, ctx.workdir.clone());
    crate::props::par_cases(ctx, &mut rep, n, 6, |m, r, i| {
        let case = gen_case(seed, i);
        run_case(&workdir, m, r, &case, &format!("{i}"), n_variants);
    });
    rep
}
