//! What a harness run measured; written as JSON for the `check` driver, which turns it into
//! evidence, known-finding lines and VIOLATION lines.
use serde_json::{json, Value};
use std::collections::{BTreeMap, HashSet};
use std::hash::{Hash, Hasher};

pub struct Report {
    pub property: String,
    pub evaluations: u64,
    pub model_requests: u64,
    distinct: HashSet<u64>,
    pub counters: BTreeMap<String, u64>,
    pub samples: Vec<Value>,
    /// model and implementation gave different answers on the same input
    pub disagreements: Vec<Value>,
    /// the property itself, evaluated on the real code, failed on a concrete input
    pub oracle_failures: Vec<Value>,
    pub rule: String,
    pub exhaustive: bool,
    pub notes: Vec<String>,
    max_list: usize,
}

impl Report {
    pub fn new(property: &str, rule: &str) -> Report {
        Report {
            property: property.to_string(),
            evaluations: 0,
            model_requests: 0,
            distinct: HashSet::new(),
            counters: BTreeMap::new(),
            samples: vec![],
            disagreements: vec![],
            oracle_failures: vec![],
            rule: rule.to_string(),
            exhaustive: false,
            notes: vec![],
            max_list: 25,
        }
    }
    /// Count one evaluated case; it is distinct+non-trivial iff `nontrivial` and its key is new.
    pub fn case<K: Hash>(&mut self, key: &K, nontrivial: bool) {
        self.evaluations += 1;
        if nontrivial {
            let mut h = std::collections::hash_map::DefaultHasher::new();
            key.hash(&mut h);
            self.distinct.insert(h.finish());
        }
    }
    pub fn count(&mut self, name: &str) {
        *self.counters.entry(name.to_string()).or_insert(0) += 1;
    }
    pub fn add(&mut self, name: &str, n: u64) {
        *self.counters.entry(name.to_string()).or_insert(0) += n;
    }
    pub fn sample(&mut self, v: Value) {
        if self.samples.len() < 6 {
            self.samples.push(v);
        }
    }
    pub fn disagree(&mut self, what: &str, case: Value, model: &str, imp: &str) {
        self.count("disagreements_total");
        if self.disagreements.len() < self.max_list {
            self.disagreements.push(json!({"what": what, "case": case, "model": clip(model), "impl": clip(imp)}));
        }
    }
    /// `signature` identifies the class of failure (matched against known_findings.json).
    pub fn oracle_fail(&mut self, signature: &str, what: &str, case: Value) {
        self.count("oracle_failures_total");
        let n = self.oracle_failures.iter().filter(|f| f["signature"] == signature).count();
        if n < 3 && self.oracle_failures.len() < self.max_list {
            self.oracle_failures.push(json!({"signature": signature, "what": what, "case": case}));
        }
    }
    /// Fold a worker thread's report into this one.
    pub fn merge(&mut self, o: Report) {
        self.evaluations += o.evaluations;
        self.model_requests += o.model_requests;
        self.distinct.extend(o.distinct);
        for (k, v) in o.counters {
            *self.counters.entry(k).or_insert(0) += v;
        }
        for s in o.samples {
            self.sample(s);
        }
        for d in o.disagreements {
            if self.disagreements.len() < self.max_list {
                self.disagreements.push(d);
            }
        }
        for f in o.oracle_failures {
            let n = self.oracle_failures.iter().filter(|g| g["signature"] == f["signature"]).count();
            if n < 3 && self.oracle_failures.len() < self.max_list {
                self.oracle_failures.push(f);
            }
        }
        self.notes.extend(o.notes);
        self.notes.truncate(20);
    }
    pub fn distinct_nontrivial(&self) -> u64 {
        self.distinct.len() as u64
    }
    pub fn to_json(&self) -> Value {
        json!({
            "property": self.property,
            "evaluations": self.evaluations,
            "distinct_nontrivial": self.distinct_nontrivial(),
            "model_requests": self.model_requests,
            "rule": self.rule,
            "exhaustive": self.exhaustive,
            "counters": self.counters,
            "samples": self.samples,
            "disagreements": self.disagreements,
            "oracle_failures": self.oracle_failures,
            "notes": self.notes,
        })
    }
}

pub fn clip(s: &str) -> String {
    if s.len() > 400 {
        format!("{}…({} chars)", &s[..400], s.len())
    } else {
        s.to_string()
    }
}
