//! One PRNG state per case: every random choice of a case derives from (seed, property, case index).
#[derive(Clone)]
pub struct Rng(pub u64);

impl Rng {
    pub fn new(seed: u64, stream: u64, case: u64) -> Self {
        let mut r = Rng(seed ^ stream.wrapping_mul(0x9E3779B97F4A7C15) ^ case.wrapping_mul(0xD1B54A32D192ED03));
        r.next();
        r.next();
        r
    }
    pub fn next(&mut self) -> u64 {
        self.0 = self.0.wrapping_add(0x9E3779B97F4A7C15);
        let mut z = self.0;
        z = (z ^ (z >> 30)).wrapping_mul(0xBF58476D1CE4E5B9);
        z = (z ^ (z >> 27)).wrapping_mul(0x94D049BB133111EB);
        z ^ (z >> 31)
    }
    /// uniform in 0..n (n > 0)
    pub fn below(&mut self, n: u64) -> u64 {
        self.next() % n
    }
    /// uniform in lo..=hi
    pub fn range(&mut self, lo: u64, hi: u64) -> u64 {
        lo + self.below(hi - lo + 1)
    }
    pub fn chance(&mut self, num: u64, den: u64) -> bool {
        self.below(den) < num
    }
    pub fn pick<'a, T>(&mut self, xs: &'a [T]) -> &'a T {
        &xs[self.below(xs.len() as u64) as usize]
    }
}
