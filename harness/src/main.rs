//! Correspondence + oracle harness: runs the real ragc code (linked from /repo's working tree)
//! and the Lean model driver on the same generated inputs and reports where they differ, and
//! evaluates each property directly on the real code.
mod gen;
mod model;
mod props;
mod report;
mod rng;

use serde_json::Value;

#[derive(Clone, Copy, PartialEq, Eq, Debug)]
pub enum Tier {
    Quick,
    Thorough,
}

pub struct Ctx {
    pub tier: Tier,
    pub seed: u64,
    pub model: Option<model::Model>,
    pub model_path: Option<String>,
    pub replay: Option<Value>,
    pub workdir: String,
}

impl Ctx {
    /// pick by tier
    pub fn t<T>(&self, quick: T, thorough: T) -> T {
        if self.tier == Tier::Quick { quick } else { thorough }
    }
    /// A private driver process for a worker thread (None when running without a model).
    pub fn spawn_model(&self) -> Option<model::Model> {
        self.model_path.as_ref().map(|p| model::Model::spawn(p).expect("spawn model driver"))
    }
    /// Leave a note of the case about to be evaluated (env VERIF_BREADCRUMB): if the real code
    /// kills the process (allocation failure abort, stack overflow), `check` reports this case.
    pub fn breadcrumb(v: &Value) {
        if let Ok(p) = std::env::var("VERIF_BREADCRUMB") {
            let _ = std::fs::write(p, v.to_string());
        }
    }
    /// Ask the model; `None` when running without a model (search-only mode).
    pub fn ask(&mut self, req: &str) -> Option<String> {
        self.model.as_mut().map(|m| m.ask(req))
    }
}

fn main() {
    let args: Vec<String> = std::env::args().collect();
    if args.len() < 2 {
        eprintln!("usage: verif_harness <Cxx> [--tier quick|thorough] [--seed N] [--model PATH|none] [--out FILE] [--replay FILE] [--workdir DIR]");
        std::process::exit(2);
    }
    let prop = args[1].clone();
    if prop == "streams" {
        // debugging aid: `verif_harness streams FILE` lists the streams of an archive with their part counts
        let mut a = ragc_common::Archive::new_reader();
        a.open(std::path::Path::new(&args[2])).expect("open archive");
        for sid in 0..a.get_num_streams() {
            println!("{} parts={} raw={}", a.get_stream_name(sid).unwrap_or("?"), a.get_num_parts(sid), a.get_raw_size(sid));
        }
        return;
    }
    let mut tier = Tier::Quick;
    let mut seed = 1u64;
    let mut model_path = "none".to_string();
    let mut out = String::new();
    let mut replay = None;
    let mut workdir = std::env::temp_dir().to_string_lossy().to_string();
    let mut i = 2;
    while i < args.len() {
        let a = args[i].as_str();
        let v = args.get(i + 1).cloned().unwrap_or_default();
        match a {
            "--tier" => tier = if v == "thorough" { Tier::Thorough } else { Tier::Quick },
            "--seed" => seed = v.parse().unwrap_or(1),
            "--model" => model_path = v,
            "--out" => out = v,
            "--workdir" => workdir = v,
            "--replay" => {
                let txt = std::fs::read_to_string(&v).expect("replay file");
                replay = Some(serde_json::from_str(&txt).expect("replay json"));
            }
            _ => {
                eprintln!("unknown argument {a}");
                std::process::exit(2);
            }
        }
        i += 2;
    }
    let model = if model_path == "none" {
        None
    } else {
        Some(model::Model::spawn(&model_path).expect("spawn model driver"))
    };
    let model_path = if model_path == "none" { None } else { Some(model_path.clone()) };
    let mut ctx = Ctx { tier, seed, model, model_path, replay, workdir };
    // panics of the code under test are caught per case; keep their messages out of stdout
    let verbose_panics = std::env::var("VERIF_PANIC_VERBOSE").is_ok();
    std::panic::set_hook(Box::new(move |info| {
        if verbose_panics {
            // diagnosis aid: every panic (also those of worker threads of the code under test)
            eprintln!("[panic] {info}");
        }
        // remember where the last panic came from (file:line) for `props::guarded`
        if let Some(l) = info.location() {
            if let Ok(mut g) = props::LAST_PANIC_LOC.lock() {
                *g = format!("{}:{}", l.file(), l.line());
            }
        }
    }));
    let mut rep = match props::run(&prop, &mut ctx) {
        Some(r) => r,
        None => {
            eprintln!("no harness for {prop}");
            std::process::exit(2);
        }
    };
    if let Some(m) = &ctx.model {
        rep.model_requests += m.requests;
    }
    let js = serde_json::to_string_pretty(&rep.to_json()).unwrap();
    if out.is_empty() {
        println!("{js}");
    } else {
        std::fs::write(&out, js).expect("write report");
    }
}
